"""Dissolving new file-local helpers into their callers (a normalisation of the resolved program, before any rule runs).

The rule instance tables of this checker were frozen from today's tree: they name the routines of the library and, where a routine
delegates to a file-local helper that exists today (`ell`, `div_exp_coeff`, `decompose_lambda`, ...), that helper.  A maintainer who
extracts a NEW helper (a free function of any linkage, or a member function called on the caller's own object) out of a routine changes
nothing about what the routine does, but moves the statements the rules look at to a place they do not look.  Such helpers - functions
that are not in jpv/baseline_functions.txt, the list of the functions of the tree the tables were written for - are therefore
substituted back, exactly:

  *  `helper(args);`                      -> { <locals for the by-value parameters> <body> }
  *  `x = helper(args);` / `T x = ...;`   -> <locals> <body without its final return> ; x = <returned expression>;

with the helper's locals renamed apart (ids; names only on a clash), by-value parameters turned into locals initialised with the
arguments (so that a helper that modifies its parameter keeps its meaning), and reference parameters replaced by the (side-effect
free) argument lvalues.  A helper with an early `return` is substituted only where that is exact: the call is in tail position of a
void caller (returning from the helper is returning from the caller), or every return is `if (c) return;` at the top level of the
helper (the rest becomes the else branch).  Anything else is left alone - the rules then see a call they do not know and decline or
report as they did before.  Predicate helpers used inside conditions and closures are handled by the CFG (jpv/cfg.py)."""
from .facts import walk, strip, strip_tmpl

BASELINE_INTERNAL = {
    'embedded_pairing::bls12_381::floordiv_by_fr_p_value', 'embedded_pairing::bls12_381::decompose_lambda',
    'embedded_pairing::bls12_381::fq2_multiply_by_u', 'embedded_pairing::bls12_381::fq2_multiply_frobenius',
    'embedded_pairing::bls12_381::div_exp_coeff', 'embedded_pairing::bls12_381::ell', 'embedded_pairing::bls12_381::exp_by_x_restrict',
}

_SKIP = ('t', 'l')
_BASE = None


def baseline():
    """the functions the rule tables know (jpv/baseline_functions.txt, written by tools/gen_baseline.py from the tree the tables were
    written for)"""
    global _BASE
    if _BASE is None:
        import os
        p = os.path.join(os.path.dirname(os.path.abspath(__file__)), 'baseline_functions.txt')
        _BASE = set(x.strip() for x in open(p) if x.strip()) | BASELINE_INTERNAL
    return _BASE


def _pure(e):
    return not any(isinstance(x, dict) and (x.get('k') in ('call', 'assign', 'lcall', 'lambda') or (x.get('k') == 'un' and x.get('op') in ('++', '--')))
                   for x in walk(e))


def _unwrap(e):
    e = strip(e)
    while isinstance(e, dict) and e.get('k') in ('cast', 'load', 'paren', 'bind', 'materialize', 'cleanup') and isinstance(e.get('e'), dict):
        e = strip(e['e'])
    return e


def _copy(e, fn):
    """deep copy of e with fn applied bottom-up to every dict node (types and locations shared)"""
    if isinstance(e, list):
        return [_copy(x, fn) for x in e]
    if not isinstance(e, dict):
        return e
    out = {k: (_copy(v, fn) if k not in _SKIP else v) for k, v in e.items()}
    r = fn(out)
    return out if r is None else r


class Inliner:
    def __init__(self, prog):
        self.prog = prog
        self.count = 0
        self.sites = []

    def eligible(self, call, caller):
        cal = self.prog.callee(call, caller)
        if cal is None or 'body' not in cal or cal is caller:
            return None
        if strip_tmpl(cal.get('qn', '')) in baseline():
            return None
        th = call.get('this')
        if th is not None:
            # a member helper: only when it is called on the caller's own object (no substitution of `this` needed)
            if _unwrap(th).get('k') != 'this' or cal.get('virtual') or cal.get('name', '').startswith(('operator', '~')):
                return None
        elif cal.get('method') and not cal.get('static'):
            return None
        if not str((cal.get('l') or ('',))[0]).startswith(('src/', 'include/')):
            return None
        args, params = call.get('args', []), cal.get('params', [])
        if len(args) != len(params) or not all(_pure(a) for a in args):
            return None
        for x in walk(cal['body']):
            if not isinstance(x, dict):
                continue
            if x.get('k') in ('lambda', 'lcall', 'asm', 'goto', 'label', 'switch'):
                return None
            if x.get('k') == 'call' and self.prog.callee(x, cal) is cal:
                return None
            if x.get('k') == 'decl' and any(v.get('static') or v.get('storage') == 'static' for v in x.get('vars', [])):
                return None
        for p in params:
            t = p.get('t') or {}
            if t.get('k') in ('record', 'union', 'array'):
                return None          # a by-value object parameter is a copy: not modelled here
        # an argument bound to a non-const reference / pointer parameter may be written by the helper: its variable must not occur in any
        # other argument (the substituted expression would change its meaning half way through)
        for i_, (p, a) in enumerate(zip(params, args)):
            t = p.get('t') or {}
            if t.get('k') in ('ref', 'ptr') and not (t.get('pointee') or {}).get('const'):
                mine = {(y.get('rk'), y.get('id')) for y in walk(a) if isinstance(y, dict) and y.get('k') == 'ref' and y.get('rk') in ('local', 'param')}
                for j_, b in enumerate(args):
                    if j_ == i_:
                        continue
                    other = {(y.get('rk'), y.get('id')) for y in walk(b) if isinstance(y, dict) and y.get('k') == 'ref' and y.get('rk') in ('local', 'param')}
                    # the same object handed over twice (aliasing arguments) is fine for substitution; a scalar used as an index is not
                    if mine & other and any(isinstance(y, dict) and y.get('k') == 'index' for y in walk(b)):
                        return None
        return cal

    # ---- the body of a helper, ready to be spliced
    def instantiate(self, call, cal, caller_names, alias_params=()):
        self.count += 1
        off = 100000 * self.count
        params = cal.get('params', [])
        args = call.get('args', [])
        refsub = {}
        pre = []
        byval = {}
        # by-value parameters the helper never writes, bound to a plain variable of the caller (or a constant) that the helper cannot reach
        written = set()
        for x in walk(cal['body']):
            if isinstance(x, dict):
                tgt = None
                if x.get('k') == 'assign':
                    tgt = _unwrap(x.get('lhs'))
                elif x.get('k') == 'un' and x.get('op') in ('++', '--', '&'):
                    tgt = _unwrap(x.get('e'))
                if isinstance(tgt, dict) and tgt.get('k') == 'ref' and tgt.get('rk') == 'param':
                    written.add(tgt.get('id'))
        byref_roots = set()
        for p, a in zip(params, args):
            if (p.get('t') or {}).get('k') in ('ref', 'ptr'):
                for y in walk(a):
                    if isinstance(y, dict) and y.get('k') == 'ref' and y.get('rk') in ('local', 'param'):
                        byref_roots.add((y.get('rk'), y.get('id')))
        for p, a in zip(params, args):
            t = p.get('t') or {}
            ua = _unwrap(a)
            plain = isinstance(ua, dict) and ((ua.get('k') == 'ref' and ua.get('rk') in ('local', 'param') and
                                               ((ua.get('rk'), ua.get('id')) not in byref_roots or t.get('k') == 'ptr')) or 'cv' in ua or ua.get('k') == 'lit')
            stable_addr = False
            if t.get('k') == 'ptr' and p['id'] not in written and _pure(a):
                # a pointer parameter the helper never re-aims, bound to an address that cannot change while it runs: the address of a
                # member / constant-index element of an object named by `this`, a parameter or a local (array decay included)
                x_ = a
                ok_ = True
                while isinstance(x_, dict):
                    k_ = x_.get('k')
                    if k_ in ('cast', 'load', 'paren'):
                        x_ = x_.get('e')
                    elif k_ == 'un' and x_.get('op') == '&':
                        x_ = x_.get('e')
                    elif k_ == 'member' and not x_.get('arrow'):
                        x_ = x_.get('base')
                    elif k_ == 'member' and x_.get('arrow') and _unwrap(x_.get('base')).get('k') == 'this':
                        x_ = None
                        break
                    elif k_ == 'index' and 'cv' in (_unwrap(x_.get('idx')) or {}):
                        x_ = x_.get('base')
                    elif k_ == 'this' or (k_ == 'ref' and x_.get('rk') in ('param',) and (x_.get('t') or {}).get('k') == 'ref'):
                        x_ = None
                        break
                    else:
                        ok_ = False
                        break
                stable_addr = ok_ and x_ is None
            if t.get('k') == 'ref' or p['id'] in alias_params or stable_addr:
                refsub[p['id']] = a
            elif p['id'] not in written and plain and t.get('k') != 'ptr' or (p['id'] not in written and plain and t.get('k') == 'ptr' and ua.get('k') == 'ref'):
                refsub[p['id']] = a
            else:
                nid = off + 50000 + len(byval)
                byval[p['id']] = nid
                nm = p.get('name') or ('arg%d' % len(byval))
                if nm in caller_names:
                    nm = '%s_%d' % (nm, self.count)
                pre.append({'k': 'decl', 'l': call.get('l'), 'vars': [{'id': nid, 'name': nm, 't': t, 'init': a, 'l': call.get('l')}]})
                byval[p['id']] = (nid, nm)
        rename = {}
        for x in walk(cal['body']):
            if isinstance(x, dict) and x.get('k') == 'decl':
                for v in x.get('vars', []):
                    if v.get('name') in caller_names:
                        rename[v.get('id')] = '%s_%d' % (v['name'], self.count)

        def fix(n):
            k = n.get('k')
            if k == 'ref' and n.get('rk') == 'local' and isinstance(n.get('id'), int):
                if n['id'] in rename:
                    n['name'] = rename[n['id']]
                n['id'] = n['id'] + off
            elif k == 'ref' and n.get('rk') == 'param' and n.get('id') in byval:
                nid, nm = byval[n['id']]
                n['rk'], n['id'], n['name'] = 'local', nid, nm
            elif k == 'decl':
                vs = []
                for v in n.get('vars', []):
                    v = dict(v)
                    if isinstance(v.get('id'), int):
                        if v['id'] in rename:
                            v['name'] = rename[v['id']]
                        v['id'] = v['id'] + off
                    vs.append(v)
                n['vars'] = vs
            return None
        body = _copy(cal['body'], fix)
        if refsub:
            from .cfg import subst_params
            body = subst_params(body, refsub)
        return pre, body

    # ---- returns of a helper body
    @staticmethod
    def returns(body):
        return [x for x in walk(body) if isinstance(x, dict) and x.get('k') == 'return']

    def splice_void(self, call, cal, caller, tail, caller_names):
        pre, body = self.instantiate(call, cal, caller_names)
        stmts = list(body.get('body', [])) if body.get('k') == 'compound' else [body]
        rets = self.returns(body)
        if rets:
            last_is_ret = bool(stmts) and stmts[-1].get('k') == 'return'
            if last_is_ret and len(rets) == 1:
                stmts = stmts[:-1]
            elif tail and (caller.get('ret') or {}).get('k') == 'void' and all(r.get('e') is None for r in rets):
                pass          # returning from the helper is returning from the caller
            else:
                conv = self._else_chain(stmts)
                if conv is None:
                    return None
                stmts = conv
        return {'k': 'compound', 'l': call.get('l'), 'body': pre + stmts, 'inlined': cal.get('qn')}

    def _else_chain(self, stmts):
        """[..., if (c) return;, rest...] -> [..., if (c) {} else { rest }] when every return is of that top-level form"""
        out = []
        for i, s in enumerate(stmts):
            if s.get('k') == 'return' and s.get('e') is None and i == len(stmts) - 1:
                return out
            if s.get('k') == 'if' and s.get('else') is None and self._ends_with_return(s.get('then')) is not None:
                # `if (c) { S; return; } REST`  ->  `if (c) { S } else { REST }`
                head = self._ends_with_return(s.get('then'))
                rest = self._else_chain(stmts[i + 1:])
                if rest is None:
                    return None
                out.append(dict(s, then={'k': 'compound', 'body': head, 'l': s.get('l')}, **{'else': {'k': 'compound', 'body': rest, 'l': s.get('l')}}))
                return out
            if self.returns(s):
                return None
            out.append(s)
        return out

    def _ends_with_return(self, s):
        """the statements before a final bare `return;` of a block that contains no other return, else None"""
        if s is None:
            return None
        stmts = list(s.get('body', [])) if s.get('k') == 'compound' else [s]
        if not stmts or not (stmts[-1].get('k') == 'return' and stmts[-1].get('e') is None):
            return None
        head = stmts[:-1]
        if any(self.returns(h) for h in head):
            return None
        return head

    @staticmethod
    def _is_bare_return(s):
        if s is None:
            return False
        if s.get('k') == 'return' and s.get('e') is None:
            return True
        return s.get('k') == 'compound' and len(s.get('body', [])) == 1 and Inliner._is_bare_return(s['body'][0])

    def splice_value(self, stmt, call, cal, caller, caller_names):
        """statement containing exactly one call (to a helper that computes a value and returns it at its end): the helper's statements,
        then the statement with the call replaced by the returned expression"""
        # `V = helper(.., V, ..)` where the helper returns that very parameter at its end: the parameter IS the caller's variable
        alias_params = ()
        e0 = _unwrap(stmt.get('e')) if stmt.get('k') == 'expr' else None
        crets = self.returns(cal['body'])
        cst = list(cal['body'].get('body', [])) if cal['body'].get('k') == 'compound' else [cal['body']]
        if isinstance(e0, dict) and e0.get('k') == 'assign' and e0.get('op') == '=' and len(crets) == 1 and cst and cst[-1] is crets[0]:
            lhs = _unwrap(e0['lhs'])
            rp = _unwrap(crets[0].get('e'))
            if isinstance(lhs, dict) and lhs.get('k') == 'ref' and lhs.get('rk') in ('local', 'param') and isinstance(rp, dict) and \
                    rp.get('k') == 'ref' and rp.get('rk') == 'param':
                for p_, a_ in zip(cal.get('params', []), call.get('args', [])):
                    ua_ = _unwrap(a_)
                    if p_['id'] == rp.get('id') and (p_.get('t') or {}).get('k') not in ('ref', 'ptr', 'record', 'array') and \
                            isinstance(ua_, dict) and ua_.get('k') == 'ref' and (ua_.get('rk'), ua_.get('id')) == (lhs.get('rk'), lhs.get('id')):
                        # the variable must not reach the helper any other way
                        others = [b_ for b_ in call.get('args', []) if b_ is not a_]
                        if not any(isinstance(y, dict) and y.get('k') == 'ref' and (y.get('rk'), y.get('id')) == (lhs.get('rk'), lhs.get('id'))
                                   for b_ in others for y in walk(b_)):
                            alias_params = (p_['id'],)
        pre, body = self.instantiate(call, cal, caller_names, alias_params)
        stmts = list(body.get('body', [])) if body.get('k') == 'compound' else [body]
        rets = self.returns(body)
        if len(rets) != 1 or not stmts or stmts[-1] is not rets[0] or rets[0].get('e') is None:
            return None
        if alias_params:
            return pre + stmts[:-1]          # the assignment V = V is dropped
        rex = rets[0]['e']

        def repl(n):
            if n.get('k') == 'call' and n.get('f') == call.get('f') and n.get('l') == call.get('l'):
                return rex
            return None
        new_stmt = _copy(stmt, repl)
        return pre + stmts[:-1] + [new_stmt]

    def inline_predicates(self, f):
        """calls, anywhere in an expression, to a NEW function whose whole body is `return E;` (or a chain `if (c) return A; ... return E;`,
        possibly after `const bool x = ...;`) are replaced by that expression over the (side-effect free) arguments"""
        from .cfg import CFG as _CFG, subst_params

        def fix(nd):
            if nd.get('k') != 'call':
                return None
            cal = self.eligible(nd, f)
            if cal is None or (cal.get('ret') or {}).get('k') in (None, 'void'):
                return None
            body = cal['body']
            stmts = body.get('body', []) if body.get('k') == 'compound' else [body]
            rex = _CFG._return_expr(stmts)
            if rex is None:
                return None
            params = cal.get('params', [])
            if any((p.get('t') or {}).get('k') not in ('ref', 'ptr', 'int', 'bool', 'enum') for p in params):
                return None
            # a parameter used more than once must be bound to something cheap and stable: any pure argument is (it is re-read, not re-run)
            self._changed = True
            self.sites.append((f['qn'], cal['qn'], nd.get('l')))
            return subst_params(rex, {p['id']: a for p, a in zip(params, nd.get('args', []))})
        for _ in range(3):
            self._changed = False
            f['body'] = _copy(f['body'], fix)
            if not self._changed:
                break

    # ---- rewriting a function body
    def rewrite_fn(self, f):
        self.inline_predicates(f)
        names = {p.get('name') for p in f.get('params', [])}
        for x in walk(f['body']):
            if isinstance(x, dict) and x.get('k') == 'decl':
                for v in x.get('vars', []):
                    names.add(v.get('name'))
        changed_any = False
        for _ in range(4):
            self._changed = False
            f['body'] = self._stmt(f['body'], f, True, names)
            if not self._changed:
                break
            changed_any = True
            for x in walk(f['body']):
                if isinstance(x, dict) and x.get('k') == 'decl':
                    for v in x.get('vars', []):
                        names.add(v.get('name'))
        return changed_any

    def _list(self, s, f, tail, names):
        """rewrite of one statement as a list of statements (for a compound parent)"""
        k = s.get('k') if isinstance(s, dict) else None
        if k == 'expr':
            e = _unwrap(s.get('e'))
            if isinstance(e, dict) and e.get('k') == 'call':
                cal = self.eligible(e, f)
                if cal is not None:
                    r = self.splice_void(e, cal, f, tail, names)
                    if r is not None:
                        self._changed = True
                        self.sites.append((f['qn'], cal['qn'], s.get('l')))
                        return [r]
        if k == 'return' and s.get('e') is not None:
            # `return helper(args);`: the helper's returns ARE the caller's returns
            e = _unwrap(s.get('e'))
            if isinstance(e, dict) and e.get('k') == 'call':
                cal = self.eligible(e, f)
                if cal is not None and (cal.get('ret') or {}).get('k') not in (None, 'void') and self.returns(cal['body']):
                    pre, body = self.instantiate(e, cal, names)
                    stmts = list(body.get('body', [])) if body.get('k') == 'compound' else [body]
                    self._changed = True
                    self.sites.append((f['qn'], cal['qn'], s.get('l')))
                    return pre + stmts
        if k in ('expr', 'decl'):
            calls = [x for x in walk(s) if isinstance(x, dict) and x.get('k') == 'call']
            if len(calls) == 1:
                cal = self.eligible(calls[0], f)
                others_pure = not any(isinstance(x, dict) and x.get('k') in ('lcall', 'lambda') for x in walk(s))
                if cal is not None and others_pure and (cal.get('ret') or {}).get('k') not in (None, 'void'):
                    # nothing else in the statement may be evaluated before the call with an effect the helper could observe: the
                    # statement is `lhs = call` / `T v = call` (possibly through casts), lhs side-effect free
                    ok_shape = False
                    if k == 'decl' and len(s.get('vars', [])) == 1 and s['vars'][0].get('init') is not None and \
                            _unwrap(s['vars'][0]['init']) is calls[0]:
                        ok_shape = True
                    e = _unwrap(s.get('e')) if k == 'expr' else None
                    if isinstance(e, dict) and e.get('k') == 'assign' and e.get('op') == '=' and _unwrap(e.get('rhs')) is calls[0] and _pure(e.get('lhs')):
                        ok_shape = True
                    if ok_shape:
                        r = self.splice_value(s, calls[0], cal, f, names)
                        if r is not None:
                            self._changed = True
                            self.sites.append((f['qn'], cal['qn'], s.get('l')))
                            return r
        return [self._stmt(s, f, tail, names)]

    def _stmt(self, s, f, tail, names):
        if not isinstance(s, dict):
            return s
        k = s.get('k')
        if k == 'compound':
            out = []
            body = s.get('body', [])
            for i, c in enumerate(body):
                # in tail position: the last statement of a tail block, or a statement directly followed by a bare `return;`
                nxt = body[i + 1] if i + 1 < len(body) else None
                before_return = isinstance(nxt, dict) and nxt.get('k') == 'return' and nxt.get('e') is None
                out += self._list(c, f, (tail and i == len(body) - 1) or before_return, names)
            return dict(s, body=out)
        if k == 'if':
            new = dict(s)
            for key in ('then', 'else'):
                if s.get(key) is not None:
                    new[key] = self._wrap(self._list(s[key], f, tail, names), s[key])
            return new
        if k in ('for', 'while', 'do'):
            new = dict(s)
            if s.get('body') is not None:
                new['body'] = self._wrap(self._list(s['body'], f, False, names), s['body'])
            return new
        if k == 'constexpr_if':
            new = dict(s)
            if s.get('taken') is not None:
                new['taken'] = self._wrap(self._list(s['taken'], f, tail, names), s['taken'])
            return new
        return s

    @staticmethod
    def _wrap(lst, orig):
        if len(lst) == 1:
            return lst[0]
        return {'k': 'compound', 'l': orig.get('l') if isinstance(orig, dict) else None, 'body': lst}


def dissolve_new_helpers(prog):
    """rewrite every library function of the program in place; returns the list of (caller, helper, location) substitutions"""
    inl = Inliner(prog)
    pw = PointerWalks(prog)
    cg = ContinueGuards()
    nn = NewNames(prog)
    lf = LoopForms()
    for f in list(prog.functions.values()):
        if 'body' not in f or not str((f.get('l') or ('',))[0]).startswith(('src/', 'include/')):
            continue
        inl.rewrite_fn(f)
        pw.rewrite_fn(f)
        lf.rewrite_fn(f)
        cg.rewrite_fn(f)
        nn.rewrite_fn(f)
    return inl.sites + pw.sites + cg.sites + nn.sites + lf.sites


# ------------------------------------------------------------------------------------------------ pointer walks
INT_T = {'k': 'int', 'size': 4, 'signed': True, 's': 'int'}


def _canon_expr(e):
    """structural key of a side-effect free expression (types and locations ignored)"""
    e = _unwrap(e)
    if isinstance(e, dict):
        return tuple(sorted((k, _canon_expr(v)) for k, v in e.items() if k not in ('t', 'l', 'lv', 'implicit', 'ck')))
    if isinstance(e, list):
        return tuple(_canon_expr(x) for x in e)
    return e


_BASE_LOCALS = None


def baseline_locals():
    global _BASE_LOCALS
    if _BASE_LOCALS is None:
        import os
        p = os.path.join(os.path.dirname(os.path.abspath(__file__)), 'baseline_locals.txt')
        _BASE_LOCALS = set(tuple(x.rstrip('\n').split('\t')) for x in open(p) if x.strip()) if os.path.exists(p) else None
    return _BASE_LOCALS


class NewNames:
    """A reference local, or a const-qualified scalar / boolean local, that the tree the rule tables were written for does not have is a
    new NAME for an expression.  When the initialiser is side-effect free and nothing it reads (parameters, locals) is written anywhere in
    the function, every use of the name is the initialiser: the name is substituted away.  (Names whose operands do change - a slot
    reference taken inside a loop - are the CFG's business: CFG.live_const_locals.)"""

    def __init__(self, prog):
        self.prog = prog
        self.sites = []

    def rewrite_fn(self, f):
        base = baseline_locals()
        if base is None:
            return
        fq = strip_tmpl(f['qn'])
        if fq not in baseline():
            return
        written = set()
        for x in walk(f['body']):
            if not isinstance(x, dict):
                continue
            tgt = None
            if x.get('k') == 'assign':
                tgt = x.get('lhs')
            elif x.get('k') == 'un' and x.get('op') in ('++', '--'):
                tgt = x.get('e')
            if tgt is not None:
                for y in walk(tgt):
                    if isinstance(y, dict) and y.get('k') == 'ref' and y.get('rk') in ('local', 'param'):
                        written.add((y['rk'], y.get('id')))
            # a variable whose address escapes, or that is handed to a callee that may write it, counts as written
            if x.get('k') == 'un' and x.get('op') == '&':
                for y in walk(x.get('e')):
                    if isinstance(y, dict) and y.get('k') == 'ref' and y.get('rk') in ('local', 'param'):
                        written.add((y['rk'], y.get('id')))
            if x.get('k') in ('call', 'icall'):
                cal = self.prog.callee(x, f) if x.get('k') == 'call' else None
                th = x.get('this')
                if th is not None and not (cal or {}).get('const_method'):
                    r0 = _unwrap(th)
                    while isinstance(r0, dict) and r0.get('k') in ('member', 'index'):
                        r0 = _unwrap(r0.get('base'))
                    if isinstance(r0, dict) and r0.get('k') == 'ref' and r0.get('rk') in ('local', 'param'):
                        written.add((r0['rk'], r0.get('id')))
                for i_, a in enumerate(x.get('args', [])):
                    pt = (cal['params'][i_]['t'] if cal is not None and i_ < len(cal.get('params', [])) else None)
                    may = pt is None or (pt.get('k') in ('ref', 'ptr') and not (pt.get('pointee') or {}).get('const'))
                    if may and pt is None and (_unwrap(a).get('t') or {}).get('k') not in ('ptr', 'ref', 'array', 'record'):
                        may = False
                    if may:
                        r0 = _unwrap(a)
                        while isinstance(r0, dict) and r0.get('k') in ('member', 'index', 'un'):
                            r0 = _unwrap(r0.get('base') if r0.get('k') != 'un' else r0.get('e'))
                        if isinstance(r0, dict) and r0.get('k') == 'ref' and r0.get('rk') in ('local', 'param') and \
                                (pt is not None and pt.get('k') == 'ref' or (r0.get('t') or {}).get('k') != 'ptr'):
                            written.add((r0['rk'], r0.get('id')))
        subs = {}
        for x in walk(f['body']):
            if isinstance(x, dict) and x.get('k') == 'decl' and len(x.get('vars', [])) == 1:
                v = x['vars'][0]
                t = v.get('t') or {}
                ini = v.get('init')
                if ini is None or v.get('id') is None or (fq, v.get('name')) in base:
                    continue
                isref = t.get('k') == 'ref'
                isconst = t.get('const') and t.get('k') in ('int', 'bool', 'enum')
                if not (isref or isconst) or not self._readonly(ini, f):
                    continue
                if any(isinstance(y, dict) and y.get('k') == 'this' for y in walk(ini)):
                    continue
                roots = {(y.get('rk'), y.get('id')) for y in walk(ini) if isinstance(y, dict) and y.get('k') == 'ref' and y.get('rk') in ('local', 'param')}
                if roots & written or ('local', v['id']) in written:
                    continue
                if any(isinstance(y, dict) and y.get('k') == 'index' for y in walk(ini)) and isref:
                    # an element selected by a variable index: only if the index is constant
                    if any(isinstance(y, dict) and y.get('k') == 'index' and 'cv' not in (_unwrap(y.get('idx')) or {}) for y in walk(ini)):
                        continue
                subs[v['id']] = (v, ini, isref)
        if not subs:
            return
        # every use must be substitutable: a reference local anywhere; a scalar only where it is read
        bad = set()

        def scan(e, parent_is_load):
            if isinstance(e, list):
                for y in e:
                    scan(y, False)
                return
            if not isinstance(e, dict):
                return
            if e.get('k') == 'ref' and e.get('rk') == 'local' and e.get('id') in subs and not subs[e['id']][2] and not parent_is_load:
                bad.add(e['id'])
            for k, v_ in e.items():
                if k in _SKIP:
                    continue
                if isinstance(v_, (dict, list)):
                    scan(v_, e.get('k') == 'load' and k == 'e')
        scan(f['body'], False)
        for b in bad:
            subs.pop(b, None)
        if not subs:
            return

        def fix(n):
            if n.get('k') == 'decl' and len(n.get('vars', [])) == 1 and n['vars'][0].get('id') in subs:
                return {'k': 'null', 'l': n.get('l')}
            if n.get('k') == 'load' and isinstance(n.get('e'), dict) and n['e'].get('k') == 'ref' and n['e'].get('rk') == 'local' and \
                    n['e'].get('id') in subs and not subs[n['e']['id']][2]:
                return subs[n['e']['id']][1]
            if n.get('k') == 'ref' and n.get('rk') == 'local' and n.get('id') in subs and subs[n['id']][2]:
                return subs[n['id']][1]
            return None
        for _ in range(3):      # names defined through names
            f['body'] = _copy(f['body'], fix)
        for vid, (v, ini, isref) in subs.items():
            self.sites.append((f['qn'], 'new name %s' % v.get('name'), v.get('l')))

    def _readonly(self, e, f):
        for x in walk(e):
            if not isinstance(x, dict):
                continue
            if x.get('k') in ('assign', 'lcall', 'lambda') or (x.get('k') == 'un' and x.get('op') in ('++', '--')):
                return False
            if x.get('k') == 'call':
                cal = self.prog.callee(x, f)
                if cal is None:
                    return False
                if x.get('this') is not None and not (cal.get('const_method') or cal.get('static')):
                    return False
                for p in cal.get('params', []):
                    t = p.get('t') or {}
                    if t.get('k') in ('ptr', 'ref') and not (p.get('pointee_const') or (t.get('pointee') or {}).get('const')):
                        return False
        return True


BOOL_T = {'k': 'bool', 'size': 1, 's': 'bool'}


def _pure_calls_ok(e):
    """no assignment / increment / closure inside (calls are allowed: the expression is evaluated at the same point, once per iteration)"""
    return not any(isinstance(x, dict) and (x.get('k') in ('assign', 'lcall', 'lambda') or (x.get('k') == 'un' and x.get('op') in ('++', '--')))
                   for x in walk(e))


class LoopForms:
    """Two loop forms the tree the tables were written for does not contain are rewritten into the ones it does:
      *  `for (;;) { B; if (c) break; }` / `while (true) {...}`  (one break, last statement, no continue)   ->  `do { B } while (!c);`
      *  `for (CALL; c; E3) B`  with a call expression as initialiser and no continue in B            ->  `CALL; while (c) { B; E3; }`"""

    def __init__(self):
        self.sites = []

    def rewrite_fn(self, f):
        self.f = f
        f['body'] = self._stmt(f['body'])

    def _stmt(self, s):
        if isinstance(s, list):
            out = []
            for x in s:
                r = self._stmt(x)
                if isinstance(r, dict) and r.get('k') == 'compound' and r.get('spliced'):
                    out += r['body']
                else:
                    out.append(r)
            return out
        if not isinstance(s, dict):
            return s
        k = s.get('k')
        out = dict(s)
        for key in ('body', 'then', 'else', 'taken'):
            if isinstance(s.get(key), (dict, list)) and k in ('compound', 'if', 'constexpr_if', 'for', 'while', 'do'):
                out[key] = self._stmt(s[key])
        if k == 'do':
            r = self._flag_condition(out)
            if r is not None:
                return r
        if k in ('for', 'while'):
            out = self._leading_break(out)
            r = self._infinite(out) or self._call_init(out) or self._no_init(out)
            if r is not None:
                return r
        return out

    def _flag_condition(self, s):
        """`do { B; x = E; } while (x)` / `while (!x)` with x a boolean local mentioned nowhere else (but its declaration): the condition
        is E"""
        body = s.get('body') or {}
        stmts = list(body.get('body', [])) if body.get('k') == 'compound' else [body]
        if not stmts or stmts[-1].get('k') != 'expr':
            return None
        a = _unwrap(stmts[-1].get('e'))
        if not (isinstance(a, dict) and a.get('k') == 'assign' and a.get('op') == '='):
            return None
        x = _unwrap(a.get('lhs'))
        if not (isinstance(x, dict) and x.get('k') == 'ref' and x.get('rk') == 'local' and (x.get('t') or {}).get('k') == 'bool'):
            return None
        uses = [y for y in walk(self.f['body']) if isinstance(y, dict) and y.get('k') == 'ref' and y.get('rk') == 'local' and y.get('id') == x['id']]
        cond_uses = [y for y in walk(s.get('c')) if isinstance(y, dict) and y.get('k') == 'ref' and y.get('rk') == 'local' and y.get('id') == x['id']]
        if len(uses) != len(cond_uses) + 1 or not cond_uses or not _pure_calls_ok(a.get('rhs')):
            return None

        def repl(n_):
            if n_.get('k') == 'load' and isinstance(n_.get('e'), dict) and n_['e'].get('k') == 'ref' and n_['e'].get('id') == x['id']:
                return a['rhs']
            if n_.get('k') == 'ref' and n_.get('rk') == 'local' and n_.get('id') == x['id']:
                return a['rhs']
            return None
        self.sites.append((self.f['qn'], 'loop condition through a flag assigned at the end of the body', s.get('l')))
        return dict(s, c=_copy(s['c'], repl), body={'k': 'compound', 'l': body.get('l'), 'body': stmts[:-1]})

    def _leading_break(self, s):
        """`LOOP (c1) { if (c2) break; REST }`  ->  `LOOP (c1 && !c2) { REST }`  (leaving before anything ran is not entering)"""
        body = s.get('body') or {}
        stmts = list(body.get('body', [])) if body.get('k') == 'compound' else [body]
        stmts = [x for x in stmts if isinstance(x, dict) and x.get('k') != 'null']
        if not stmts or s.get('c') is None:
            return s
        first = stmts[0]
        if not (first.get('k') == 'if' and first.get('else') is None):
            return s
        th = first.get('then') or {}
        tb = th.get('body', []) if th.get('k') == 'compound' else [th]
        if len(tb) != 1 or tb[0].get('k') != 'break' or not _pure(first['c']) and not all(
                isinstance(x, dict) and x.get('k') != 'assign' for x in walk(first['c'])):
            return s
        neg = {'k': 'un', 'op': '!', 'e': first['c'], 't': BOOL_T, 'l': first.get('l')}
        cond = {'k': 'bin', 'op': '&&', 'lhs': s['c'], 'rhs': neg, 't': BOOL_T, 'l': s.get('l')}
        self.sites.append((self.f['qn'], 'leading guarded break', first.get('l')))
        return dict(s, c=cond, body={'k': 'compound', 'l': body.get('l'), 'body': stmts[1:]})

    def _no_init(self, s):
        """`for (; c; E3) B` without continue in B  ->  `while (c) { B; E3; }`"""
        if s.get('k') != 'for' or s.get('init') is not None or s.get('c') is None or s.get('inc') is None:
            return None
        body = s.get('body') or {'k': 'compound', 'body': []}
        if any(isinstance(x, dict) and x.get('k') == 'continue' and not self._in_inner_loop(body, x) for x in walk(body)):
            return None
        stmts = list(body.get('body', [])) if body.get('k') == 'compound' else [body]
        stmts = [x for x in stmts if x.get('k') != 'null'] + [{'k': 'expr', 'e': s['inc'], 'l': s.get('l')}]
        self.sites.append((self.f['qn'], 'for without initialiser', s.get('l')))
        return {'k': 'while', 'l': s.get('l'), 'c': s['c'], 'body': {'k': 'compound', 'l': s.get('l'), 'body': stmts}}

    def _is_last_statement(self, s):
        """s is (by location) the last top-level statement of a void function"""
        if (self.f.get('ret') or {}).get('k') != 'void':
            return False
        body = self.f['body']
        top = list(body.get('body', [])) if body.get('k') == 'compound' else [body]
        top = [x for x in top if isinstance(x, dict) and x.get('k') != 'null']
        return bool(top) and top[-1].get('l') == s.get('l') and top[-1].get('k') == s.get('k')

    @staticmethod
    def _true(c):
        if c is None:
            return True
        u = _unwrap(c)
        return isinstance(u, dict) and ((u.get('k') == 'lit' and u.get('bool') is True) or str(u.get('cv')) == '1')

    def _infinite(self, s):
        if s.get('k') == 'for' and (s.get('init') is not None or s.get('inc') is not None):
            return None
        if not self._true(s.get('c')):
            return None
        body = s.get('body') or {}
        stmts = list(body.get('body', [])) if body.get('k') == 'compound' else [body]
        if not stmts:
            return None
        # exit test at the HEAD: `for (;;) { if (c) break;  REST }`  (or `return;` at the very end of a void function)  ->  `while (!c) { REST }`
        first = stmts[0]
        if isinstance(first, dict) and first.get('k') == 'if' and first.get('else') is None and len(stmts) > 1:
            th0 = first.get('then') or {}
            tb0 = th0.get('body', []) if th0.get('k') == 'compound' else [th0]
            brk0 = len(tb0) == 1 and tb0[0].get('k') == 'break'
            ret0 = len(tb0) == 1 and tb0[0].get('k') == 'return' and tb0[0].get('e') is None and self._is_last_statement(s)
            rest0 = stmts[1:]
            clean = not any(isinstance(x, dict) and ((x.get('k') == 'break' and not self._in_inner_loop(h, x)) or x.get('k') == 'return')
                            for h in rest0 for x in walk(h))
            if (brk0 or ret0) and clean:
                cond0 = {'k': 'un', 'op': '!', 'e': first['c'], 't': BOOL_T, 'l': first.get('l')}
                self.sites.append((self.f['qn'], 'infinite loop with the exit test at its head', s.get('l')))
                return {'k': 'while', 'l': s.get('l'), 'c': cond0, 'body': {'k': 'compound', 'l': body.get('l'), 'body': rest0}}
        last = stmts[-1]
        if not (isinstance(last, dict) and last.get('k') == 'if' and last.get('else') is None):
            return None
        th = last.get('then') or {}
        tb = th.get('body', []) if th.get('k') == 'compound' else [th]
        is_break = len(tb) == 1 and tb[0].get('k') == 'break'
        # `return;` does what `break` does when the loop is the last statement of a void function
        is_tail_return = len(tb) == 1 and tb[0].get('k') == 'return' and tb[0].get('e') is None and self._is_last_statement(s)
        if not (is_break or is_tail_return):
            return None
        head = stmts[:-1]
        if is_tail_return and any(isinstance(x, dict) and x.get('k') == 'return' for h in head for x in walk(h)):
            return None
        if any(isinstance(x, dict) and x.get('k') in ('break', 'continue') for h in head for x in walk(h)
               if not self._in_inner_loop(h, x)):
            return None
        cond = {'k': 'un', 'op': '!', 'e': last['c'], 't': BOOL_T, 'l': last.get('l')}
        self.sites.append((self.f['qn'], 'infinite loop with a trailing break', s.get('l')))
        return {'k': 'do', 'l': s.get('l'), 'c': cond, 'body': {'k': 'compound', 'l': body.get('l'), 'body': head}}

    @staticmethod
    def _in_inner_loop(root, node):
        # is `node` inside a loop nested in `root` (then its break / continue is not ours)?
        def rec(x, inside):
            if x is node:
                return inside
            if isinstance(x, dict):
                ins = inside or x.get('k') in ('for', 'while', 'do', 'switch')
                for k_, v in x.items():
                    if k_ in _SKIP:
                        continue
                    if isinstance(v, (dict, list)):
                        r = rec(v, ins)
                        if r is not None:
                            return r
            elif isinstance(x, list):
                for y in x:
                    r = rec(y, inside)
                    if r is not None:
                        return r
            return None
        return bool(rec(root, False))

    def _call_init(self, s):
        if s.get('k') != 'for' or s.get('init') is None or s.get('c') is None:
            return None
        init = s['init']
        if init.get('k') != 'expr' or _unwrap(init.get('e')).get('k') != 'call':
            return None
        body = s.get('body') or {'k': 'compound', 'body': []}
        if any(isinstance(x, dict) and x.get('k') == 'continue' and not self._in_inner_loop(body, x) for x in walk(body)):
            return None
        stmts = list(body.get('body', [])) if body.get('k') == 'compound' else [body]
        stmts = [x for x in stmts if x.get('k') != 'null']
        if s.get('inc') is not None:
            stmts = stmts + [{'k': 'expr', 'e': s['inc'], 'l': s.get('l')}]
        self.sites.append((self.f['qn'], 'for with a call as initialiser', s.get('l')))
        wl = {'k': 'while', 'l': s.get('l'), 'c': s['c'], 'body': {'k': 'compound', 'l': s.get('l'), 'body': stmts}}
        return {'k': 'compound', 'spliced': True, 'l': s.get('l'), 'body': [init, wl]}


class ContinueGuards:
    """inside a loop body, `if (c) { continue; } REST` (the `if` at the top level of the body, no else) is `if (c) { } else { REST }`:
    the nested form is the one the rule tables were written for.  `if (c) { S; continue; } REST` becomes `if (c) { S } else { REST }`."""

    def __init__(self):
        self.sites = []

    def rewrite_fn(self, f):
        self.f = f
        f['body'] = self._stmt(f['body'])

    def _stmt(self, s):
        if isinstance(s, list):
            return [self._stmt(x) for x in s]
        if not isinstance(s, dict):
            return s
        k = s.get('k')
        out = dict(s)
        if k in ('for', 'while', 'do') and isinstance(s.get('body'), dict):
            b = self._stmt(s['body'])
            out['body'] = self._guards(b)
            return out
        for key in ('body', 'then', 'else', 'taken'):
            if isinstance(s.get(key), (dict, list)) and k in ('compound', 'if', 'constexpr_if'):
                out[key] = self._stmt(s[key])
        return out

    @staticmethod
    def _ends_with_continue(s):
        """(statements before the continue) when the block is `{ ...; continue; }` with no other continue / break inside, else None"""
        stmts = list(s.get('body', [])) if s.get('k') == 'compound' else [s]
        if not stmts or stmts[-1].get('k') != 'continue':
            return None
        head = stmts[:-1]
        if any(isinstance(x, dict) and x.get('k') in ('continue', 'break') for h in head for x in walk(h)):
            return None
        return head

    def _guards(self, body):
        if not (isinstance(body, dict) and body.get('k') == 'compound'):
            return body
        stmts = list(body.get('body', []))
        for i, st in enumerate(stmts):
            if isinstance(st, dict) and st.get('k') == 'if' and st.get('else') is None and isinstance(st.get('then'), dict):
                head = self._ends_with_continue(st['then'])
                if head is None:
                    continue
                rest = self._guards({'k': 'compound', 'l': st.get('l'), 'body': stmts[i + 1:]})
                new_if = dict(st, then={'k': 'compound', 'l': st.get('l'), 'body': head}, **{'else': rest})
                self.sites.append((self.f['qn'], 'continue guard', st.get('l')))
                return dict(body, body=stmts[:i] + [new_if])
        return body


class PointerWalks:
    """`for (T* p = BASE; p != BASE + N; p++) ... p->m ... *p ...` is the index loop `for (int i = 0; i != N; i++) ... BASE[i].m ...
    BASE[i] ...` when p is stepped only by the loop header and BASE, N are not written in the body: the rule tables speak of the
    index form."""

    def __init__(self, prog):
        self.prog = prog
        self.sites = []
        self.count = 0

    def rewrite_fn(self, f):
        names = {p.get('name') for p in f.get('params', [])}
        decls = {}
        for x in walk(f['body']):
            if isinstance(x, dict) and x.get('k') == 'decl':
                for v in x.get('vars', []):
                    names.add(v.get('name'))
                    if v.get('id') is not None:
                        decls[v['id']] = v
        self.f, self.names, self.decls = f, names, decls
        self.loop_depth = 0
        f['body'] = self._stmt(f['body'])

    def _stmt(self, s):
        if isinstance(s, list):
            return [self._stmt(x) for x in s]
        if not isinstance(s, dict):
            return s
        k = s.get('k')
        if k == 'for':
            r = self._try(s)
            if r is not None:
                s = r
        out = dict(s)
        inner = k in ('for', 'while', 'do')
        if inner:
            self.loop_depth += 1
        for key in ('body', 'then', 'else', 'taken'):
            if isinstance(s.get(key), (dict, list)) and k in ('compound', 'if', 'for', 'while', 'do', 'constexpr_if'):
                out[key] = self._stmt(s[key])
        if inner:
            self.loop_depth -= 1
        return out

    def _roots_written(self, body, exprs):
        roots = set()
        for e in exprs:
            for y in walk(e):
                if isinstance(y, dict) and y.get('k') == 'ref' and y.get('rk') in ('local', 'param'):
                    roots.add((y.get('rk'), y.get('id')))
        for x in walk(body):
            if not isinstance(x, dict):
                continue
            tgt = None
            if x.get('k') == 'assign':
                tgt = x.get('lhs')
            elif x.get('k') == 'un' and x.get('op') in ('++', '--'):
                tgt = x.get('e')
            if tgt is not None:
                # a write to the variable itself or to anything reached through it (a member, an element): BASE / N may change
                for y in walk(tgt):
                    if isinstance(y, dict) and y.get('k') == 'ref' and (y.get('rk'), y.get('id')) in roots:
                        return True
            if x.get('k') in ('call', 'icall'):
                cal = self.prog.callee(x, self.f) if x.get('k') == 'call' else None
                th = x.get('this')
                if th is not None and not (cal or {}).get('const_method'):
                    for y in walk(th):
                        if isinstance(y, dict) and y.get('k') == 'ref' and (y.get('rk'), y.get('id')) in roots:
                            return True
                for i_, a in enumerate(x.get('args', [])):
                    pt = (cal['params'][i_]['t'] if cal is not None and i_ < len(cal.get('params', [])) else None)
                    if pt is None or (pt.get('k') in ('ref', 'ptr') and not (pt.get('pointee') or {}).get('const')):
                        at = (_unwrap(a).get('t') or {}).get('k')
                        if pt is None and at not in ('ptr', 'ref', 'array', 'record'):
                            continue
                        for y in walk(a):
                            if isinstance(y, dict) and y.get('k') == 'ref' and (y.get('rk'), y.get('id')) in roots:
                                return True
        return False

    def _try(self, s):
        init, c, inc, body = s.get('init'), s.get('c'), s.get('inc'), s.get('body')
        if not (init and init.get('k') == 'decl' and len(init.get('vars', [])) == 1 and c and inc and body):
            return None
        v = init['vars'][0]
        t = v.get('t') or {}
        if t.get('k') != 'ptr' or v.get('init') is None or not ((t.get('pointee') or {}).get('size')):
            return None
        pid = v['id']
        base = v['init']
        if not _pure(base):
            return None
        # `T* p = BASE + V` with V an integer local that is dead after the loop: V itself is the index (the loop continues a cursor)
        start_var = None
        ub = _unwrap(base)
        if isinstance(ub, dict) and ub.get('k') == 'bin' and ub.get('op') == '+':
            sv = _unwrap(ub['rhs'])
            if isinstance(sv, dict) and sv.get('k') == 'ref' and sv.get('rk') == 'local' and (sv.get('t') or {}).get('k') == 'int' and \
                    ((_unwrap(ub['lhs']).get('t') or {}).get('k') in ('ptr', 'array')):
                start_var = sv
                base = ub['lhs']
        ui = _unwrap(inc)
        if not (isinstance(ui, dict) and ui.get('k') == 'un' and ui.get('op') == '++' and _unwrap(ui.get('e')).get('id') == pid):
            return None
        uc = strip(c)
        while isinstance(uc, dict) and uc.get('k') in ('cast', 'paren'):
            uc = strip(uc['e'])
        if not (isinstance(uc, dict) and uc.get('k') == 'bin' and uc.get('op') in ('!=', '<')):
            return None
        l, r = _unwrap(uc['lhs']), _unwrap(uc['rhs'])
        if not (isinstance(l, dict) and l.get('k') == 'ref' and l.get('id') == pid):
            return None
        endx = r
        if isinstance(r, dict) and r.get('k') == 'ref' and r.get('rk') == 'local':
            dv = self.decls.get(r.get('id'))
            if dv is None or dv.get('init') is None or not (dv.get('t') or {}).get('const'):
                return None
            endx = _unwrap(dv['init'])
        if not (isinstance(endx, dict) and endx.get('k') == 'bin' and endx.get('op') == '+'):
            return None
        if _canon_expr(endx['lhs']) == _canon_expr(base):
            nexpr = endx['rhs']
        elif _canon_expr(endx['rhs']) == _canon_expr(base):
            nexpr = endx['lhs']
        else:
            return None
        if not _pure(nexpr) or self._roots_written(body, [base, nexpr]):
            return None
        # uses of p in the body
        for x in walk(body):
            if not isinstance(x, dict):
                continue
            if x.get('k') == 'assign' and _unwrap(x.get('lhs')).get('k') == 'ref' and _unwrap(x['lhs']).get('id') == pid:
                return None
            if x.get('k') == 'un' and x.get('op') in ('++', '--', '&') and isinstance(_unwrap(x.get('e')), dict) and \
                    _unwrap(x['e']).get('k') == 'ref' and _unwrap(x['e']).get('id') == pid:
                return None
            if x.get('k') == 'index' and isinstance(_unwrap(x.get('base')), dict) and _unwrap(x['base']).get('k') == 'ref' and _unwrap(x['base']).get('id') == pid:
                return None
        if start_var is not None:
            # dead after the loop: not inside another loop, never mentioned later in the function, not written in the body
            def last_loc(x):
                best = (0, 0)
                for y in walk(x):
                    if isinstance(y, dict) and isinstance(y.get('l'), tuple) and (y['l'][1], y['l'][2]) > best:
                        best = (y['l'][1], y['l'][2])
                return best
            end_of_loop = last_loc(s)
            later = any(isinstance(y, dict) and y.get('k') == 'ref' and y.get('rk') == 'local' and y.get('id') == start_var['id'] and
                        isinstance(y.get('l'), tuple) and (y['l'][1], y['l'][2]) > end_of_loop for y in walk(self.f['body']))
            if self.loop_depth > 0 or later or self._roots_written(body, [start_var]):
                return None
        self.count += 1
        iname = None
        for cand in ('i', 'j', 'k', 'idx'):
            if cand not in self.names:
                iname = cand
                break
        iname = iname or 'i_%d' % self.count
        iid = 900000 + self.count
        if start_var is not None:
            iname, iid = start_var.get('name'), start_var['id']
        self.names.add(iname)
        rid = 950000 + self.count
        loc = s.get('l')
        elem_t = t.get('pointee')
        ref_t = {'k': 'ref', 'pointee': elem_t, 's': (elem_t or {}).get('s', '?') + ' &'}
        pname = v.get('name')

        def iref():
            return {'k': 'load', 't': INT_T, 'l': loc, 'e': {'k': 'ref', 'rk': 'local', 'id': iid, 'name': iname, 't': INT_T, 'lv': True, 'l': loc}}

        def elem():
            return {'k': 'index', 'base': base, 'idx': iref(), 't': elem_t, 'lv': True, 'l': loc}

        def cur():
            # the current element, through a reference local that carries the pointer's name (`T& p = BASE[i];`, the form the tables know)
            return {'k': 'ref', 'rk': 'local', 'id': rid, 'name': pname, 't': ref_t, 'lv': True, 'l': loc}

        def is_p(e):
            u = _unwrap(e)
            return isinstance(u, dict) and u.get('k') == 'ref' and u.get('rk') == 'local' and u.get('id') == pid

        def fix(n):
            if n.get('k') == 'member' and n.get('arrow') and is_p(n.get('base')):
                return dict(n, arrow=False, base=cur())
            if n.get('k') == 'un' and n.get('op') == '*' and is_p(n.get('e')):
                return cur()
            return None
        new_body = _copy(body, fix)
        # any remaining mention of p: the address of the current element
        def fix2(n):
            if n.get('k') == 'load' and isinstance(n.get('e'), dict) and n['e'].get('k') == 'ref' and n['e'].get('rk') == 'local' and n['e'].get('id') == pid:
                return {'k': 'un', 'op': '&', 'e': cur(), 't': t, 'l': loc}
            return None
        new_body = _copy(new_body, fix2)
        if any(isinstance(x, dict) and x.get('k') == 'ref' and x.get('rk') == 'local' and x.get('id') == pid for x in walk(new_body)):
            return None
        rdecl = {'k': 'decl', 'l': loc, 'vars': [{'id': rid, 'name': pname, 't': ref_t, 'init': elem(), 'l': loc}]}
        nb = list(new_body.get('body', [])) if new_body.get('k') == 'compound' else [new_body]
        new_body = {'k': 'compound', 'l': (new_body.get('l') or loc), 'body': [rdecl] + nb}
        new_init = {'k': 'decl', 'l': loc, 'vars': [{'id': iid, 'name': iname, 't': INT_T, 'l': loc,
                                                    'init': {'k': 'lit', 'cv': '0', 't': INT_T, 'l': loc}}]}
        if start_var is not None:
            new_init = None
        new_c = {'k': 'bin', 'op': uc['op'], 'lhs': iref(), 'rhs': nexpr, 't': uc.get('t'), 'l': uc.get('l')}
        new_inc = {'k': 'un', 'op': '++', 'post': True, 't': INT_T, 'l': loc,
                   'e': {'k': 'ref', 'rk': 'local', 'id': iid, 'name': iname, 't': INT_T, 'lv': True, 'l': loc}}
        self.sites.append((self.f['qn'], 'pointer walk over %s' % v.get('name'), loc))
        return dict(s, init=new_init, c=new_c, inc=new_inc, body=new_body, pointer_walk=v.get('name'))
