"""Dissolving new file-local helpers into their callers (a normalisation of the resolved program, before any rule runs).

The rule instance tables of this checker were frozen from today's tree: they name the routines of the library and, where a routine
delegates to a file-local helper that exists today (`ell`, `div_exp_coeff`, `decompose_lambda`, ...), that helper.  A maintainer who
extracts a NEW helper (a free function of any linkage, or a member function called on the caller's own object) out of a routine changes
nothing about what the routine does, but moves the statements the rules look at to a place they do not look.  Such helpers - functions
that are not in jpv/baseline_functions.txt, the list of the functions of the tree the tables were written for - are therefore
substituted back, exactly:

  *  `helper(args);`                      -> { <locals for the by-value parameters> <body> }
  *  `x = helper(args);` / `T x = ...;`   -> <locals> <body without its final return> ; x = <returned expression>;

with the helper's locals renamed apart (ids; names only on a clash), by-value parameters turned into locals initialised with the
arguments (so that a helper that modifies its parameter keeps its meaning), and reference parameters replaced by the (side-effect
free) argument lvalues.  A helper with an early `return` is substituted only where that is exact: the call is in tail position of a
void caller (returning from the helper is returning from the caller), or every return is `if (c) return;` at the top level of the
helper (the rest becomes the else branch).  Anything else is left alone - the rules then see a call they do not know and decline or
report as they did before.  Predicate helpers used inside conditions and closures are handled by the CFG (jpv/cfg.py)."""
from .facts import walk, strip, strip_tmpl

BASELINE_INTERNAL = {
    'embedded_pairing::bls12_381::floordiv_by_fr_p_value', 'embedded_pairing::bls12_381::decompose_lambda',
    'embedded_pairing::bls12_381::fq2_multiply_by_u', 'embedded_pairing::bls12_381::fq2_multiply_frobenius',
    'embedded_pairing::bls12_381::div_exp_coeff', 'embedded_pairing::bls12_381::ell', 'embedded_pairing::bls12_381::exp_by_x_restrict',
}

_SKIP = ('t', 'l')
_BASE = None


def baseline():
    """the functions the rule tables know (jpv/baseline_functions.txt, written by tools/gen_baseline.py from the tree the tables were
    written for)"""
    global _BASE
    if _BASE is None:
        import os
        p = os.path.join(os.path.dirname(os.path.abspath(__file__)), 'baseline_functions.txt')
        _BASE = set(x.strip() for x in open(p) if x.strip()) | BASELINE_INTERNAL
    return _BASE


def _pure(e):
    return not any(isinstance(x, dict) and (x.get('k') in ('call', 'assign', 'lcall', 'lambda') or (x.get('k') == 'un' and x.get('op') in ('++', '--')))
                   for x in walk(e))


def _unwrap(e):
    e = strip(e)
    while isinstance(e, dict) and e.get('k') in ('cast', 'load', 'paren', 'bind', 'materialize', 'cleanup') and isinstance(e.get('e'), dict):
        e = strip(e['e'])
    return e


def _copy(e, fn):
    """deep copy of e with fn applied bottom-up to every dict node (types and locations shared)"""
    if isinstance(e, list):
        return [_copy(x, fn) for x in e]
    if not isinstance(e, dict):
        return e
    out = {k: (_copy(v, fn) if k not in _SKIP else v) for k, v in e.items()}
    r = fn(out)
    return out if r is None else r


class Inliner:
    def __init__(self, prog):
        self.prog = prog
        self.count = 0
        self.sites = []

    def eligible(self, call, caller):
        cal = self.prog.callee(call, caller)
        if cal is None or 'body' not in cal or cal is caller:
            return None
        if strip_tmpl(cal.get('qn', '')) in baseline():
            return None
        th = call.get('this')
        if th is not None:
            # a member helper: only when it is called on the caller's own object (no substitution of `this` needed)
            if _unwrap(th).get('k') != 'this' or cal.get('virtual') or cal.get('name', '').startswith(('operator', '~')):
                return None
        elif cal.get('method') and not cal.get('static'):
            return None
        if not str((cal.get('l') or ('',))[0]).startswith(('src/', 'include/')):
            return None
        args, params = call.get('args', []), cal.get('params', [])
        if len(args) != len(params) or not all(_pure(a) for a in args):
            return None
        for x in walk(cal['body']):
            if not isinstance(x, dict):
                continue
            if x.get('k') in ('lambda', 'lcall', 'asm', 'goto', 'label', 'switch'):
                return None
            if x.get('k') == 'call' and self.prog.callee(x, cal) is cal:
                return None
            if x.get('k') == 'decl' and any(v.get('static') or v.get('storage') == 'static' for v in x.get('vars', [])):
                return None
        for p in params:
            t = p.get('t') or {}
            if t.get('k') in ('record', 'union', 'array'):
                return None          # a by-value object parameter is a copy: not modelled here
        return cal

    # ---- the body of a helper, ready to be spliced
    def instantiate(self, call, cal, caller_names):
        self.count += 1
        off = 100000 * self.count
        params = cal.get('params', [])
        args = call.get('args', [])
        refsub = {}
        pre = []
        byval = {}
        # by-value parameters the helper never writes, bound to a plain variable of the caller (or a constant) that the helper cannot reach
        written = set()
        for x in walk(cal['body']):
            if isinstance(x, dict):
                tgt = None
                if x.get('k') == 'assign':
                    tgt = _unwrap(x.get('lhs'))
                elif x.get('k') == 'un' and x.get('op') in ('++', '--', '&'):
                    tgt = _unwrap(x.get('e'))
                if isinstance(tgt, dict) and tgt.get('k') == 'ref' and tgt.get('rk') == 'param':
                    written.add(tgt.get('id'))
        byref_roots = set()
        for p, a in zip(params, args):
            if (p.get('t') or {}).get('k') in ('ref', 'ptr'):
                for y in walk(a):
                    if isinstance(y, dict) and y.get('k') == 'ref' and y.get('rk') in ('local', 'param'):
                        byref_roots.add((y.get('rk'), y.get('id')))
        for p, a in zip(params, args):
            t = p.get('t') or {}
            ua = _unwrap(a)
            plain = isinstance(ua, dict) and ((ua.get('k') == 'ref' and ua.get('rk') in ('local', 'param') and
                                               ((ua.get('rk'), ua.get('id')) not in byref_roots or t.get('k') == 'ptr')) or 'cv' in ua or ua.get('k') == 'lit')
            if t.get('k') == 'ref':
                refsub[p['id']] = a
            elif p['id'] not in written and plain and t.get('k') != 'ptr' or (p['id'] not in written and plain and t.get('k') == 'ptr' and ua.get('k') == 'ref'):
                refsub[p['id']] = a
            else:
                nid = off + 50000 + len(byval)
                byval[p['id']] = nid
                nm = p.get('name') or ('arg%d' % len(byval))
                if nm in caller_names:
                    nm = '%s_%d' % (nm, self.count)
                pre.append({'k': 'decl', 'l': call.get('l'), 'vars': [{'id': nid, 'name': nm, 't': t, 'init': a, 'l': call.get('l')}]})
                byval[p['id']] = (nid, nm)
        rename = {}
        for x in walk(cal['body']):
            if isinstance(x, dict) and x.get('k') == 'decl':
                for v in x.get('vars', []):
                    if v.get('name') in caller_names:
                        rename[v.get('id')] = '%s_%d' % (v['name'], self.count)

        def fix(n):
            k = n.get('k')
            if k == 'ref' and n.get('rk') == 'local' and isinstance(n.get('id'), int):
                if n['id'] in rename:
                    n['name'] = rename[n['id']]
                n['id'] = n['id'] + off
            elif k == 'ref' and n.get('rk') == 'param' and n.get('id') in byval:
                nid, nm = byval[n['id']]
                n['rk'], n['id'], n['name'] = 'local', nid, nm
            elif k == 'decl':
                vs = []
                for v in n.get('vars', []):
                    v = dict(v)
                    if isinstance(v.get('id'), int):
                        if v['id'] in rename:
                            v['name'] = rename[v['id']]
                        v['id'] = v['id'] + off
                    vs.append(v)
                n['vars'] = vs
            return None
        body = _copy(cal['body'], fix)
        if refsub:
            from .cfg import subst_params
            body = subst_params(body, refsub)
        return pre, body

    # ---- returns of a helper body
    @staticmethod
    def returns(body):
        return [x for x in walk(body) if isinstance(x, dict) and x.get('k') == 'return']

    def splice_void(self, call, cal, caller, tail, caller_names):
        pre, body = self.instantiate(call, cal, caller_names)
        stmts = list(body.get('body', [])) if body.get('k') == 'compound' else [body]
        rets = self.returns(body)
        if rets:
            last_is_ret = bool(stmts) and stmts[-1].get('k') == 'return'
            if last_is_ret and len(rets) == 1:
                stmts = stmts[:-1]
            elif tail and (caller.get('ret') or {}).get('k') == 'void' and all(r.get('e') is None for r in rets):
                pass          # returning from the helper is returning from the caller
            else:
                conv = self._else_chain(stmts)
                if conv is None:
                    return None
                stmts = conv
        return {'k': 'compound', 'l': call.get('l'), 'body': pre + stmts, 'inlined': cal.get('qn')}

    def _else_chain(self, stmts):
        """[..., if (c) return;, rest...] -> [..., if (c) {} else { rest }] when every return is of that top-level form"""
        out = []
        for i, s in enumerate(stmts):
            if s.get('k') == 'return' and s.get('e') is None and i == len(stmts) - 1:
                return out
            if s.get('k') == 'if' and s.get('else') is None and self._is_bare_return(s.get('then')):
                rest = self._else_chain(stmts[i + 1:])
                if rest is None:
                    return None
                out.append(dict(s, then={'k': 'compound', 'body': [], 'l': s.get('l')}, **{'else': {'k': 'compound', 'body': rest, 'l': s.get('l')}}))
                return out
            if self.returns(s):
                return None
            out.append(s)
        return out

    @staticmethod
    def _is_bare_return(s):
        if s is None:
            return False
        if s.get('k') == 'return' and s.get('e') is None:
            return True
        return s.get('k') == 'compound' and len(s.get('body', [])) == 1 and Inliner._is_bare_return(s['body'][0])

    def splice_value(self, stmt, call, cal, caller, caller_names):
        """statement containing exactly one call (to a helper that computes a value and returns it at its end): the helper's statements,
        then the statement with the call replaced by the returned expression"""
        pre, body = self.instantiate(call, cal, caller_names)
        stmts = list(body.get('body', [])) if body.get('k') == 'compound' else [body]
        rets = self.returns(body)
        if len(rets) != 1 or not stmts or stmts[-1] is not rets[0] or rets[0].get('e') is None:
            return None
        rex = rets[0]['e']

        def repl(n):
            if n.get('k') == 'call' and n.get('f') == call.get('f') and n.get('l') == call.get('l'):
                return rex
            return None
        new_stmt = _copy(stmt, repl)
        return pre + stmts[:-1] + [new_stmt]

    # ---- rewriting a function body
    def rewrite_fn(self, f):
        names = {p.get('name') for p in f.get('params', [])}
        for x in walk(f['body']):
            if isinstance(x, dict) and x.get('k') == 'decl':
                for v in x.get('vars', []):
                    names.add(v.get('name'))
        changed_any = False
        for _ in range(4):
            self._changed = False
            f['body'] = self._stmt(f['body'], f, True, names)
            if not self._changed:
                break
            changed_any = True
            for x in walk(f['body']):
                if isinstance(x, dict) and x.get('k') == 'decl':
                    for v in x.get('vars', []):
                        names.add(v.get('name'))
        return changed_any

    def _list(self, s, f, tail, names):
        """rewrite of one statement as a list of statements (for a compound parent)"""
        k = s.get('k') if isinstance(s, dict) else None
        if k == 'expr':
            e = _unwrap(s.get('e'))
            if isinstance(e, dict) and e.get('k') == 'call':
                cal = self.eligible(e, f)
                if cal is not None:
                    r = self.splice_void(e, cal, f, tail, names)
                    if r is not None:
                        self._changed = True
                        self.sites.append((f['qn'], cal['qn'], s.get('l')))
                        return [r]
        if k in ('expr', 'decl'):
            calls = [x for x in walk(s) if isinstance(x, dict) and x.get('k') == 'call']
            if len(calls) == 1:
                cal = self.eligible(calls[0], f)
                others_pure = not any(isinstance(x, dict) and x.get('k') in ('lcall', 'lambda') for x in walk(s))
                if cal is not None and others_pure and (cal.get('ret') or {}).get('k') not in (None, 'void'):
                    # nothing else in the statement may be evaluated before the call with an effect the helper could observe: the
                    # statement is `lhs = call` / `T v = call` (possibly through casts), lhs side-effect free
                    ok_shape = False
                    if k == 'decl' and len(s.get('vars', [])) == 1 and s['vars'][0].get('init') is not None and \
                            _unwrap(s['vars'][0]['init']) is calls[0]:
                        ok_shape = True
                    e = _unwrap(s.get('e')) if k == 'expr' else None
                    if isinstance(e, dict) and e.get('k') == 'assign' and e.get('op') == '=' and _unwrap(e.get('rhs')) is calls[0] and _pure(e.get('lhs')):
                        ok_shape = True
                    if ok_shape:
                        r = self.splice_value(s, calls[0], cal, f, names)
                        if r is not None:
                            self._changed = True
                            self.sites.append((f['qn'], cal['qn'], s.get('l')))
                            return r
        return [self._stmt(s, f, tail, names)]

    def _stmt(self, s, f, tail, names):
        if not isinstance(s, dict):
            return s
        k = s.get('k')
        if k == 'compound':
            out = []
            body = s.get('body', [])
            for i, c in enumerate(body):
                out += self._list(c, f, tail and i == len(body) - 1, names)
            return dict(s, body=out)
        if k == 'if':
            new = dict(s)
            for key in ('then', 'else'):
                if s.get(key) is not None:
                    new[key] = self._wrap(self._list(s[key], f, tail, names), s[key])
            return new
        if k in ('for', 'while', 'do'):
            new = dict(s)
            if s.get('body') is not None:
                new['body'] = self._wrap(self._list(s['body'], f, False, names), s['body'])
            return new
        if k == 'constexpr_if':
            new = dict(s)
            if s.get('taken') is not None:
                new['taken'] = self._wrap(self._list(s['taken'], f, tail, names), s['taken'])
            return new
        return s

    @staticmethod
    def _wrap(lst, orig):
        if len(lst) == 1:
            return lst[0]
        return {'k': 'compound', 'l': orig.get('l') if isinstance(orig, dict) else None, 'body': lst}


def dissolve_new_helpers(prog):
    """rewrite every library function of the program in place; returns the list of (caller, helper, location) substitutions"""
    inl = Inliner(prog)
    for f in list(prog.functions.values()):
        if 'body' not in f or not str((f.get('l') or ('',))[0]).startswith(('src/', 'include/')):
            continue
        inl.rewrite_fn(f)
    return inl.sites
