"""R-ALIAS: read-after-write alias hazards (DESIGN.md C18, appendix A.1).

safe(F, P): walk F's body in execution order under the aliasing pattern P (a set of equalities
output-slot == input-slot), tracking the byte ranges written through the aliased output; a read that is
syntactically rooted at the aliased *input* and overlaps an earlier write is a hazard.  Calls are atomic
"read the inputs, then write the outputs" events provided the callee is itself safe under the pattern the
call induces (memoised, recursive).  Constant-bounded loops are unrolled exactly; run-time-bounded loops
are walked twice with a symbolic induction variable and the same-IV rule."""
from .facts import walk, strip, loc_str, strip_tmpl
from . import ranges

UNROLL_CAP = 6000


class Path:
    __slots__ = ('root', 'segs', 'size', 'from_input', 'site')

    def __init__(self, root, segs=(), size=None, from_input=None, site=None):
        self.root = root
        self.segs = tuple(segs)
        self.size = size
        self.from_input = from_input
        self.site = site

    def add_off(self, off, size):
        segs = list(self.segs)
        if segs and segs[-1][0] == 'off':
            segs[-1] = ('off', segs[-1][1] + off)
        else:
            segs.append(('off', off))
        return Path(self.root, segs, size, self.from_input, self.site)

    def add_idx(self, stride, idx, size):
        return Path(self.root, list(self.segs) + [('idx', stride, idx)], size, self.from_input, self.site)

    def with_size(self, size):
        return Path(self.root, self.segs, size, self.from_input, self.site)

    def concrete_range(self):
        off = 0
        for s in self.segs:
            if s[0] == 'off':
                off += s[1]
            else:
                if s[2][0] != 'c':
                    return None
                off += s[1] * s[2][1]
        return (off, off + (self.size if self.size is not None else 1))

    def key(self):
        return (self.root, self.segs)

    def __repr__(self):
        out = [str(self.root)]
        for s in self.segs:
            if s[0] == 'off':
                out.append('+%d' % s[1])
            else:
                out.append('[%s*%s]' % (s[1], idx_str(s[2])))
        return ''.join(out) + ('{%s}' % self.size)


def idx_str(i):
    if i[0] == 'c':
        return str(i[1])
    if i[0] == 'a':
        return '%d*iv%s@%s%+d%s' % (i[2], i[1], i[4], i[3], ('+' + i[5]) if i[5] else '')
    return '?'


def overlap(w, r):
    """may the written path w overlap the read path r (same canonical root assumed checked by caller)?"""
    if w.root != r.root:
        return False
    cw, cr = w.concrete_range(), r.concrete_range()
    if cw is not None and cr is not None:
        return cw[0] < cr[1] and cr[0] < cw[1]
    # symbolic: compare segment-wise while the structure matches
    a, b = list(w.segs), list(r.segs)
    offa = offb = 0
    ia = ib = 0
    while True:
        while ia < len(a) and a[ia][0] == 'off':
            offa += a[ia][1]
            ia += 1
        while ib < len(b) and b[ib][0] == 'off':
            offb += b[ib][1]
            ib += 1
        if ia >= len(a) or ib >= len(b):
            break
        sa, sb = a[ia], b[ib]
        if offa != offb or sa[1] != sb[1]:
            return True      # different array bases/strides inside the same object: be conservative
        xa, xb = sa[2], sb[2]
        if xa[0] == 'c' and xb[0] == 'c':
            if xa[1] != xb[1]:
                return False
        elif xa[0] == 'a' and xb[0] == 'a' and xa[1] == xb[1] and xa[2] == xb[2] and xa[5] == xb[5] and xa[2] != 0:
            # same loop, same coefficient, same loop-invariant symbolic part: write tag ta, read tag tb
            k, cwc, crc = xa[2], xa[3], xb[3]
            ta, tb = xa[4], xb[4]
            step = xa[6]
            d = cwc - crc
            if ta == tb:
                if d != 0:
                    return False
            else:
                # the read happens n >= 1 iterations after the write: k*i + cw == k*(i + step*n) + cr
                ks = k * step
                if ks == 0 or d == 0 or (d % ks) != 0 or (d // ks) < 1:
                    return False
        else:
            return True
        ia += 1
        ib += 1
        offa = offb = 0
    # remaining: one path may be a prefix (whole object) of the other
    if ia >= len(a) and ib >= len(b):
        wa = (offa, offa + (w.size or 1))
        rb = (offb, offb + (r.size or 1))
        return wa[0] < rb[1] and rb[0] < wa[1]
    return True


class Hazard:
    def __init__(self, fn, pattern, write, read, chain=None, kind='raw'):
        self.fn, self.pattern, self.write, self.read, self.chain, self.kind = fn, pattern, write, read, chain or [], kind

    def innermost(self):
        return self.chain[-1] if self.chain else self

    def describe(self):
        h = self
        parts = []
        while True:
            parts.append('%s under %s' % (h.fn['qn'], fmt_pattern(h.fn, h.pattern)))
            if h.chain:
                h = h.chain[0]
            else:
                break
        inner = h
        if inner.kind == 'raw':
            tail = 'reads %s at %s after the aliased output was written (%s at %s)' % (
                inner.read, inner.read.site, inner.write, inner.write.site)
        else:
            tail = inner.kind
        return ' -> '.join(parts) + ': ' + tail


def slot_name(fn, s):
    if s == 'this':
        return 'this'
    return fn['params'][s]['name']


def fmt_pattern(fn, pattern):
    def one(t):
        o, i, d = t
        if d == 0:
            return '%s==%s' % (slot_name(fn, o), slot_name(fn, i))
        return '&%s==&%s%+d' % (slot_name(fn, i), slot_name(fn, o), d)
    return '{' + ', '.join(one(t) for t in sorted(pattern, key=str)) + '}'


class Analyzer:
    unresolved = None

    def __init__(self, prog, asm_summary=None):
        self.unresolved = []
        self.prog = prog
        self.memo = {}
        self.in_progress = set()
        self.asm_summary = asm_summary   # callable(name, pattern_by_argindex) -> None (safe) | str (hazard) | 'assumed'
        self.assumed_leaves = set()
        self.restrict_notes = []
        self.queries = 0

    # ---------- slots ----------
    def out_slots(self, fn):
        outs = []
        if fn.get('method') and not fn.get('static_method') and not fn.get('const_method'):
            outs.append('this')
        for i, p in enumerate(fn['params']):
            if p.get('indirect') and not p.get('pointee_const'):
                pt = (p['t'].get('pointee') or {})
                if pt.get('k') in ('record', 'union'):
                    outs.append(i)
        return outs

    def in_slots(self, fn):
        ins = []
        if fn.get('method') and not fn.get('static_method') and fn.get('const_method'):
            ins.append('this')
        for i, p in enumerate(fn['params']):
            if p.get('indirect') and p.get('pointee_const'):
                pt = (p['t'].get('pointee') or {})
                if pt.get('k') in ('record', 'union'):
                    ins.append(i)
        return ins

    def slot_type(self, fn, s):
        if s == 'this':
            return (fn.get('this_t') or {}).get('pointee')
        return fn['params'][s]['t'].get('pointee')

    def slot_restrict(self, fn, s):
        return s != 'this' and bool(fn['params'][s].get('restrict'))

    def compatible(self, ta, tb):
        """same record, or one derives from the other at offset 0 with equal size"""
        if not ta or not tb:
            return False
        a, b = ta.get('rec'), tb.get('rec')
        if a is None or b is None:
            return False
        if a == b:
            return True
        if ta.get('size') != tb.get('size'):
            return False
        return self.derives0(a, b) or self.derives0(b, a)

    def derives0(self, d, base):
        seen = set()
        cur = [d]
        while cur:
            x = cur.pop()
            if x == base:
                return True
            if x in seen:
                continue
            seen.add(x)
            r = self.prog.records.get(x)
            if r:
                for bb in r['bases']:
                    if bb['off'] == 0:
                        cur.append(bb['rec'])
        return False

    def interface_patterns(self, fn):
        outs, ins = self.out_slots(fn), self.in_slots(fn)
        pats = []
        for o in outs:
            if self.slot_restrict(fn, o):
                continue
            comp = [i for i in ins if not self.slot_restrict(fn, i) and self.compatible(self.slot_type(fn, o), self.slot_type(fn, i))]
            for i in comp:
                pats.append(frozenset([(o, i, 0)]))
            if len(comp) > 1:
                pats.append(frozenset((o, i, 0) for i in comp))
        return pats

    # ---------- query ----------
    def safe(self, fn, pattern, const_args=()):
        """returns list of Hazard (empty = safe); const_args: ((param index, value), ...) known at the call"""
        key = (fn['key'], pattern, const_args)
        if key in self.memo:
            return self.memo[key]
        if key in self.in_progress:
            return []          # optimistic on recursion (none in this code base)
        self.in_progress.add(key)
        self.queries += 1
        try:
            res = FnWalk(self, fn, pattern, const_args).run()
        finally:
            self.in_progress.discard(key)
        self.memo[key] = res
        return res


class Terminated(Exception):
    pass


class FnWalk:
    def __init__(self, an, fn, pattern, const_args=()):
        self.const_args = const_args
        self.an = an
        self.prog = an.prog
        self.fn = fn
        self.pattern = pattern
        self.hazards = []
        self.alias_out = {}     # input slot -> (output slot, byte offset of the input inside the output)
        for (o, i, d) in pattern:
            self.alias_out[i] = (o, d)
        self.aliased_outs = set(o for (o, i, d) in pattern)
        self.binds = {}         # local id -> Path (reference / pointer locals)
        self.ptrstore = {}      # root of a local object -> [Path pointees stored into pointer-typed fields/elements of it]
        self.env = {}           # local id -> ('c', v) | ('a', ...) for induction variables
        self.iters = 0
        self.loop_counter = 0
        self.param_index = {p['id']: i for i, p in enumerate(fn['params'])}
        for (pi, v) in const_args:
            if not ranges.writes_to(fn['body'], fn['params'][pi]['id']):
                self.env[fn['params'][pi]['id']] = ('c', v)

    # ----- roots -----
    def root_for_slot(self, s):
        return ('slot', s)

    def canon_root(self, root):
        """map an input slot root to the output slot root it aliases; returns (root, from_input_slot or None)"""
        if root[0] == 'slot' and root[1] in self.alias_out:
            o, d = self.alias_out[root[1]]
            return ('slot', o), root[1], d
        return root, None, 0

    def mk(self, root, node):
        r, fi, d = self.canon_root(root)
        return Path(r, (('off', d),) if d else (), None, fi, loc_str(node))

    # ----- index evaluation -----
    def eval_index(self, e):
        r = self._affine(e)
        if r is None:
            return ('u',)
        consts, ivs, syms = r
        if not ivs and not syms:
            return ('c', consts)
        if len(ivs) == 1:
            (lid, tag, step), k = list(ivs.items())[0]
            symkey = '+'.join('%s*%s' % (v, kk) for kk, v in sorted(syms.items()))
            return ('a', lid, k, consts, tag, symkey, step)
        return ('u',)

    def _affine(self, e):
        """(const, {(loop,tag,step): coeff}, {symname: coeff}) or None"""
        e = strip(e)
        if not isinstance(e, dict):
            return None
        if 'cv' in e:
            return (int(e['cv']), {}, {})
        k = e.get('k')
        if k == 'ref' and e.get('rk') in ('local', 'param'):
            v = self.env.get(e['id'])
            if v is not None:
                if v[0] == 'c':
                    return (v[1], {}, {})
                if v[0] == 'iv':
                    return (0, {(v[1], v[2], v[3]): 1}, {})
            if e.get('rk') == 'param' or e['id'] in self.invariant_locals:
                return (0, {}, {'%s#%s' % (e['name'], e['id']): 1})
            return None
        if k == 'cast':
            return self._affine(e['e'])
        if k == 'bin' and e['op'] in ('+', '-'):
            a, b = self._affine(e['lhs']), self._affine(e['rhs'])
            if a is None or b is None:
                return None
            sg = 1 if e['op'] == '+' else -1
            ivs = dict(a[1])
            for kk, v in b[1].items():
                ivs[kk] = ivs.get(kk, 0) + sg * v
            syms = dict(a[2])
            for kk, v in b[2].items():
                syms[kk] = syms.get(kk, 0) + sg * v
            return (a[0] + sg * b[0], {kk: v for kk, v in ivs.items() if v}, {kk: v for kk, v in syms.items() if v})
        if k == 'bin' and e['op'] in ('*', '<<'):
            a, b = self._affine(e['lhs']), self._affine(e['rhs'])
            if a is None or b is None:
                return None
            if e['op'] == '<<':
                if b[1] or b[2]:
                    return None
                m = 1 << b[0]
                return (a[0] * m, {kk: v * m for kk, v in a[1].items()}, {kk: v * m for kk, v in a[2].items()})
            for x, y in ((a, b), (b, a)):
                if not y[1] and not y[2]:
                    m = y[0]
                    return (x[0] * m, {kk: v * m for kk, v in x[1].items()}, {kk: v * m for kk, v in x[2].items()})
            return None
        if k == 'bin' and e['op'] in ('>>', '/', '%', '&'):
            a, b = self._affine(e['lhs']), self._affine(e['rhs'])
            if a is None or b is None or a[1] or a[2] or b[1] or b[2]:
                return None
            try:
                v = {'>>': a[0] >> b[0], '/': a[0] // b[0], '%': a[0] % b[0], '&': a[0] & b[0]}[e['op']]
            except Exception:
                return None
            return (v, {}, {})
        if k == 'un' and e['op'] == '-':
            a = self._affine(e['e'])
            if a is None:
                return None
            return (-a[0], {kk: -v for kk, v in a[1].items()}, {kk: -v for kk, v in a[2].items()})
        return None

    # ----- lvalue / pointer evaluation -----
    def lvalue(self, e):
        """Path designated by lvalue expression e (or None)."""
        if not isinstance(e, dict):
            return None
        k = e.get('k')
        t = e.get('t') or {}
        if k == 'ref':
            rk = e.get('rk')
            if rk == 'param':
                idx = self.param_index.get(e['id'])
                pt = self.fn['params'][idx]['t'] if idx is not None else {}
                if pt.get('k') == 'ref':
                    return self.mk(('slot', idx), e).with_size(t.get('size'))
                return Path(('paramvar', e['id']), (), t.get('size'), None, loc_str(e))
            if rk == 'local':
                b = self.binds.get(e['id'])
                if b is not None and (t.get('k') != 'ptr'):
                    # reference local: designates the bound object
                    if self.local_is_ref.get(e['id']):
                        return b.with_size(t.get('size'))
                return Path(('local', e['id']), (), t.get('size'), None, loc_str(e))
            if rk in ('global', 'staticlocal'):
                return Path(('global', e.get('g')), (), t.get('size'), None, loc_str(e))
            return None
        if k == 'member':
            if e.get('arrow'):
                base = self.pointer(e['base'])
            else:
                base = self.lvalue(e['base'])
            if base is None:
                return None
            return base.add_off(e.get('off', 0), t.get('size'))
        if k == 'index':
            base = self.pointer(e['base'])
            if base is None:
                return None
            return base.add_idx(t.get('size') or 1, self.eval_index(e['idx']), t.get('size'))
        if k == 'un' and e.get('op') == '*':
            p = self.pointer(e['e'])
            return p.with_size(t.get('size')) if p is not None else None
        if k == 'cast':
            inner = self.lvalue(e['e'])
            if inner is None:
                return None
            if e.get('ck') in ('DerivedToBase', 'UncheckedDerivedToBase'):
                return inner.add_off(e.get('baseoff', 0), t.get('size'))
            return inner.with_size(t.get('size'))
        if k == 'cond':
            # `(this == &b) ? b : a`: the aliasing pattern decides pointer equalities; an undecided choice is resolved towards the
            # operand that aliases an output (the conservative one for hazard detection)
            v = self.cond_value(e['c'])
            a, b = self.lvalue(e['then']), self.lvalue(e['else'])
            if v is True:
                return a
            if v is False:
                return b
            cands = [p for p in (a, b) if p is not None]
            best = [p for p in cands if p.from_input is not None or p.root[0] == 'slot'] or cands
            return best[0] if best else None
        return None

    def pointer(self, e):
        """Path of the object a pointer-valued expression points to (or None)."""
        if not isinstance(e, dict):
            return None
        k = e.get('k')
        t = e.get('t') or {}
        pt = t.get('pointee') or {}
        psize = pt.get('size')
        if k == 'this':
            return self.mk(('slot', 'this'), e).with_size(psize)
        if k == 'load':
            inner = e['e']
            ik = inner.get('k')
            if ik == 'ref':
                rk = inner.get('rk')
                if rk == 'param':
                    idx = self.param_index.get(inner['id'])
                    return self.mk(('slot', idx), inner).with_size(psize)
                if rk == 'local':
                    b = self.binds.get(inner['id'])
                    if b is not None:
                        return b.with_size(psize)
                    return Path(('unknownptr', inner['id']), (), psize, None, loc_str(inner))
                if rk == 'global':
                    return Path(('deref-global', inner.get('g')), (), psize, None, loc_str(inner))
            lv = self.lvalue(inner)
            if lv is not None:
                cands = self.ptrstore.get(lv.root)
                if cands:
                    # a pointer read back from a local table/struct: it may be any pointer stored there; for hazard
                    # detection the conservative choice is one that designates an aliased input
                    best = [c for c in cands if c.from_input is not None] or cands
                    return best[0].with_size(psize)
                # pointer stored in a field: a distinct heap object identified by where the pointer lives
                return Path(('deref', lv.key()), (), psize, None, loc_str(inner))
            return None
        if k == 'un' and e.get('op') == '&':
            lv = self.lvalue(e['e'])
            return lv
        if k == 'cast':
            ck = e.get('ck')
            if ck == 'ArrayToPointerDecay':
                lv = self.lvalue(e['e'])
                if lv is None:
                    return None
                return lv.with_size(psize)
            inner = self.pointer(e['e'])
            if inner is None:
                return None
            if ck in ('DerivedToBase', 'UncheckedDerivedToBase'):
                return inner.add_off(e.get('baseoff', 0), psize)
            return inner.with_size(psize)
        if k == 'bin' and e.get('op') in ('+', '-'):
            l, r = e['lhs'], e['rhs']
            lt = (strip(l).get('t') or {})
            if (l.get('t') or {}).get('k') == 'ptr' or lt.get('k') == 'ptr':
                base = self.pointer(l)
                idx = self.eval_index(r)
            else:
                base = self.pointer(r)
                idx = self.eval_index(l)
            if base is None:
                return None
            if e['op'] == '-':
                idx = ('c', -idx[1]) if idx[0] == 'c' else ('u',)
            return base.add_idx(psize or 1, idx, psize)
        if k == 'ref' and t.get('k') == 'array':
            return self.lvalue(e)
        if k == 'cond':
            v = self.cond_value(e['c'])
            a, b = self.pointer(e['then']), self.pointer(e['else'])
            if v is True:
                return a
            if v is False:
                return b
            cands = [p for p in (a, b) if p is not None]
            best = [p for p in cands if p.from_input is not None or p.root[0] == 'slot'] or cands
            return best[0] if best else None
        return None

    # ----- events -----
    def do_read(self, p, W):
        if p is None or p.from_input is None:
            return
        for w in W:
            if overlap(w, p):
                self.hazards.append(Hazard(self.fn, self.pattern, w, p))
                return

    def do_write(self, p, W):
        if p is None:
            return
        if p.root[0] == 'slot' and p.root[1] in self.aliased_outs:
            # only writes through (something aliased with) an output matter
            key = (p.key(), p.size)
            for w in W:
                if (w.key(), w.size) == key:
                    return
            W.append(p)

    # ----- expression walk: emits reads/writes in evaluation order -----
    def expr(self, e, W):
        if e is None or not isinstance(e, dict):
            return
        k = e.get('k')
        if k == 'load':
            inner = e['e']
            self.expr_lvalue_subexprs(inner, W)
            t = e.get('t') or {}
            if t.get('k') not in ('ptr',) or True:
                lv = self.lvalue(inner)
                if lv is not None:
                    self.do_read(lv.with_size(t.get('size')), W)
            return
        if k in ('lit', 'str', 'null', 'zeroinit', 'this', 'sizeof', 'defaultinit'):
            return
        if k == 'ref':
            return
        if k in ('member', 'index'):
            self.expr_lvalue_subexprs(e, W)
            return
        if k == 'un':
            op = e.get('op')
            if op in ('++', '--'):
                self.expr_lvalue_subexprs(e['e'], W)
                lv = self.lvalue(e['e'])
                self.do_read(lv, W)
                self.do_write(lv, W)
                self.kill_env(e['e'])
                return
            if op == '&':
                self.expr_lvalue_subexprs(e['e'], W)
                return
            if op == '*':
                self.expr(e['e'], W)
                return
            self.expr(e['e'], W)
            return
        if k == 'bin':
            self.expr(e['lhs'], W)
            self.expr(e['rhs'], W)
            return
        if k == 'cond':
            self.expr(e['c'], W)
            W1 = list(W)
            self.expr(e['then'], W1)
            W2 = list(W)
            self.expr(e['else'], W2)
            for x in W1 + W2:
                if x not in W:
                    W.append(x)
            return
        if k == 'assign':
            op = e.get('op')
            self.expr(e['rhs'], W)
            self.expr_lvalue_subexprs(e['lhs'], W)
            lv = self.lvalue(e['lhs'])
            if e.get('recordcopy'):
                src = self.lvalue(strip_casts(e['rhs']))
                self.do_read(src, W)
            if op != '=':
                self.do_read(lv, W)
            self.do_write(lv, W)
            self.track_assign(e)
            return
        if k == 'cast':
            self.expr(e['e'], W)
            return
        if k == 'copyctor':
            src = self.lvalue(strip_casts(e['e']))
            self.expr_lvalue_subexprs(strip_casts(e['e']), W)
            self.do_read(src, W)
            return
        if k == 'initlist':
            for x in e.get('inits', []):
                self.expr(x, W)
            return
        if k == 'construct':
            for x in e.get('args', []):
                self.expr(x, W)
            return
        if k == 'call':
            self.call(e, W)
            return
        if k == 'icall':
            self.expr(e['fn'], W)
            for a in e.get('args', []):
                self.expr(a, W)
            # callback (randomness / hash): writes through its pointer argument
            for a in e.get('args', []):
                if (a.get('t') or {}).get('k') == 'ptr':
                    p = self.pointer(a)
                    if p is not None:
                        self.do_write(p.with_size(None), W)
            return
        if k == '?':
            raise ValueError('unsupported expression %s at %s' % (e.get('cls'), loc_str(e)))
        for key in ('e', 'lhs', 'rhs'):
            if isinstance(e.get(key), dict):
                self.expr(e[key], W)

    def expr_lvalue_subexprs(self, e, W):
        """evaluate the rvalue sub-expressions an lvalue expression contains (indices, pointer loads)"""
        if not isinstance(e, dict):
            return
        k = e.get('k')
        if k == 'member':
            if e.get('arrow'):
                self.expr(e['base'], W)
            else:
                self.expr_lvalue_subexprs(e['base'], W)
        elif k == 'index':
            self.expr(e['base'], W)
            self.expr(e['idx'], W)
        elif k == 'un' and e.get('op') == '*':
            self.expr(e['e'], W)
        elif k == 'cast':
            if (e.get('t') or {}).get('k') == 'ptr' or e.get('ck') == 'ArrayToPointerDecay' and False:
                self.expr(e['e'], W)
            else:
                self.expr_lvalue_subexprs(e['e'], W)
        elif k == 'ref':
            return
        elif k in ('call', 'icall', 'load', 'bin', 'cond', 'assign'):
            self.expr(e, W)

    def kill_env(self, lhs):
        l = strip(lhs)
        if l.get('k') == 'ref' and l.get('rk') in ('local', 'param'):
            v = self.env.get(l['id'])
            if v is not None and v[0] == 'c':
                self.env.pop(l['id'], None)

    def track_assign(self, e):
        l0 = e['lhs']
        if (l0.get('t') or {}).get('k') == 'ptr' and strip(l0).get('k') in ('index', 'member') and e.get('op') == '=':
            lv = self.lvalue(l0)
            pp = self.pointer(e['rhs'])
            if lv is not None and pp is not None and lv.root[0] == 'local':
                self.ptrstore.setdefault(lv.root, []).append(pp)
        l = strip(e['lhs'])
        if l.get('k') == 'ref' and l.get('rk') == 'local':
            t = l.get('t') or {}
            if t.get('k') == 'ptr' and e.get('op') == '=':
                p = self.pointer(e['rhs'])
                if p is not None:
                    self.binds[l['id']] = p
                else:
                    self.binds.pop(l['id'], None)
            if e.get('op') == '=' and t.get('k') in ('int', 'bool'):
                a = self._affine(e['rhs'])
                if a is not None and not a[1] and not a[2] and l['id'] not in self.loop_ivs:
                    self.env[l['id']] = ('c', a[0])
                else:
                    if self.env.get(l['id'], ('x',))[0] == 'c':
                        self.env.pop(l['id'], None)
            elif t.get('k') in ('int', 'bool'):
                if self.env.get(l['id'], ('x',))[0] == 'c':
                    self.env.pop(l['id'], None)

    # ----- calls -----
    def call(self, e, W):
        callee = self.prog.callee(e, self.fn)
        args = e.get('args', [])
        this = e.get('this')
        # evaluate argument expressions (reads inside them)
        if this is not None:
            if e.get('arrow'):
                self.expr(this, W)
            else:
                self.expr_lvalue_subexprs(this, W)
        for a in args:
            if (a.get('t') or {}).get('k') in ('record', 'union') or a.get('lv'):
                self.expr_lvalue_subexprs(strip_casts(a), W)
            else:
                self.expr(a, W)
        name = e.get('name')
        # libc memory primitives
        if callee is None or 'body' not in callee:
            if name in ('memcpy', 'memmove', 'memset', 'memcmp') and (callee is None or callee.get('externC')):
                self.libc(e, name, W)
                return
        # actual paths per slot
        actual = {}
        if this is not None:
            actual['this'] = self.pointer(this) if e.get('arrow') else self.lvalue(this)
        cparams = callee['params'] if callee else []
        for i, a in enumerate(args):
            pt = cparams[i]['t'] if i < len(cparams) else (a.get('t') or {})
            if pt.get('k') == 'ref':
                actual[i] = self.lvalue(strip_casts_keep_base(a))
            elif pt.get('k') == 'ptr' or (a.get('t') or {}).get('k') == 'ptr':
                actual[i] = self.pointer(a)
            else:
                actual[i] = None
        if callee is None:
            return
        outs = self.an.out_slots(callee)
        ins = self.an.in_slots(callee)
        if 'body' not in callee and callee.get('externC'):
            # assembly leaf / extern: treat untyped pointer parameters: first non-const pointer = output
            outs = [i for i, p in enumerate(callee['params']) if p.get('indirect') and not p.get('pointee_const')]
            ins = [i for i, p in enumerate(callee['params']) if p.get('indirect') and p.get('pointee_const')]
        # reads of inputs
        for s in ins:
            p = actual.get(s)
            if p is not None:
                self.do_read(p, W)
        # induced pattern
        q = set()
        partial = []
        for o in outs:
            po = actual.get(o)
            if po is None:
                continue
            for i in ins:
                pi = actual.get(i)
                if pi is None:
                    continue
                if po.root != pi.root:
                    continue
                if po.key() == pi.key() and (po.size == pi.size or po.size is None or pi.size is None):
                    q.add((o, i, 0))
                elif overlap(po, pi):
                    ro, ri = po.concrete_range(), pi.concrete_range()
                    if ro is not None and ri is not None:
                        q.add((o, i, ri[0] - ro[0]))     # the input is a sub-object (or enclosing object) of the output
                    else:
                        partial.append((o, i, po, pi))
        for (o, i, po, pi) in partial:
            h = Hazard(self.fn, self.pattern, po, pi, kind='call %s at %s: output %s partially overlaps input %s' % (
                callee['qn'], loc_str(e), po, pi))
            self.hazards.append(h)
        if q:
            q = frozenset(q)
            if 'body' in callee:
                cargs = []
                for ai, a in enumerate(args):
                    if ai < len(cparams) and cparams[ai]['t'].get('k') in ('int', 'bool', 'enum'):
                        av = self._affine(a)
                        if av is not None and not av[1] and not av[2]:
                            cargs.append((ai, av[0]))
                sub = self.an.safe(callee, q, tuple(cargs))
                if sub:
                    self.hazards.append(Hazard(self.fn, self.pattern, None, None, chain=[sub[0]],
                                               kind='call'))
                # restrict note
                for (o, i, d) in q:
                    if self.an.slot_restrict(callee, i) or self.an.slot_restrict(callee, o):
                        self.an.restrict_notes.append((self.fn['qn'], callee['qn'], loc_str(e), bool(sub)))
            else:
                verdict = self.an.asm_summary(callee, q) if self.an.asm_summary else 'assumed'
                if verdict == 'assumed':
                    self.an.assumed_leaves.add(callee['qn'])
                elif verdict:
                    self.hazards.append(Hazard(callee_stub(callee), q, None, None, kind='assembly leaf %s: %s' % (callee['qn'], verdict)))
        # writes of outputs (whole objects) - unless this is an identity copy under the pattern
        for o in outs:
            p = actual.get(o)
            if p is None:
                continue
            if q and is_copy_like(self.prog, callee) and all(oo == o and dd == 0 for (oo, ii, dd) in q):
                continue
            self.do_write(p, W)

    def libc(self, e, name, W):
        args = e.get('args', [])
        if name == 'memcmp':
            for a in args[:2]:
                p = self.pointer(a)
                if p is not None:
                    self.do_read(p.with_size(self.len_of(args[2])), W)
            return
        dst = self.pointer(args[0]) if args else None
        n = self.len_of(args[2]) if len(args) > 2 else None
        if name in ('memcpy', 'memmove'):
            src = self.pointer(args[1])
            if src is not None:
                self.do_read(src.with_size(n), W)
            if name == 'memcpy' and dst is not None and src is not None and dst.root == src.root and overlap(dst.with_size(n), src.with_size(n)):
                self.hazards.append(Hazard(self.fn, self.pattern, dst, src, kind='memcpy with overlapping source and destination at %s' % loc_str(e)))
            if dst is not None and src is not None and dst.key() == src.key():
                return   # identity copy
        if dst is not None:
            self.do_write(dst.with_size(n), W)

    def len_of(self, e):
        e = strip(e)
        if isinstance(e, dict) and 'cv' in e:
            return int(e['cv'])
        return None

    # ----- statements -----
    def cond_value(self, c):
        """Evaluate conditions that the aliasing pattern or the constant environment decides; None = unknown."""
        c = strip(c)
        if not isinstance(c, dict):
            return None
        if 'cv' in c:
            return bool(int(c['cv']))
        if c.get('k') == 'bin' and c.get('op') in ('==', '!='):
            l, r = c['lhs'], c['rhs']
            if (l.get('t') or {}).get('k') == 'ptr' and (r.get('t') or {}).get('k') == 'ptr':
                pl, pr = self.pointer(l), self.pointer(r)
                if pl is not None and pr is not None:
                    if pl.root == pr.root and pl.segs == pr.segs and (pl.root[0] == 'slot'):
                        same = True
                        return same if c['op'] == '==' else (not same)
                    if pl.root[0] == 'slot' and pr.root[0] == 'slot' and pl.root != pr.root:
                        # distinct slots not equated by the pattern: assume distinct objects
                        return (c['op'] == '!=')
            a = self._affine(c['lhs'])
            b = self._affine(c['rhs'])
            if a is not None and b is not None and not a[1] and not a[2] and not b[1] and not b[2]:
                return (a[0] == b[0]) if c['op'] == '==' else (a[0] != b[0])
        if c.get('k') == 'bin' and c.get('op') in ('<', '<=', '>', '>='):
            a = self._affine(c['lhs'])
            b = self._affine(c['rhs'])
            if a is not None and b is not None and not a[1] and not a[2] and not b[1] and not b[2]:
                return {'<': a[0] < b[0], '<=': a[0] <= b[0], '>': a[0] > b[0], '>=': a[0] >= b[0]}[c['op']]
        if c.get('k') == 'un' and c.get('op') == '!':
            v = self.cond_value(c['e'])
            return None if v is None else (not v)
        if c.get('k') == 'bin' and c.get('op') == '&&':
            a, b = self.cond_value(c['lhs']), self.cond_value(c['rhs'])
            if a is False or b is False:
                return False
            if a is True and b is True:
                return True
        if c.get('k') == 'bin' and c.get('op') == '||':
            a, b = self.cond_value(c['lhs']), self.cond_value(c['rhs'])
            if a is True or b is True:
                return True
            if a is False and b is False:
                return False
        return None

    def stmt(self, s, W):
        """process statement; returns (W', terminated)"""
        if s is None:
            return W, False
        k = s.get('k')
        if k == 'compound':
            for c in s['body']:
                W, term = self.stmt(c, W)
                if term:
                    return W, True
            return W, False
        if k == 'expr':
            self.expr(s['e'], W)
            return W, False
        if k == 'decl':
            for v in s['vars']:
                init = v.get('init')
                t = v.get('t') or {}
                if init is not None:
                    self.expr(init, W)
                    if t.get('k') in ('array', 'record') and v.get('id') is not None:
                        for x in walk(init):
                            if x.get('k') in ('un', 'cast', 'load') and (x.get('t') or {}).get('k') == 'ptr':
                                pp = self.pointer(x)
                                if pp is not None and pp.root[0] in ('slot', 'local'):
                                    self.ptrstore.setdefault(('local', v['id']), []).append(pp)
                    if t.get('k') == 'ref':
                        p = self.lvalue(strip_casts_keep_base(init))
                        if p is not None:
                            self.binds[v['id']] = p
                            self.local_is_ref[v['id']] = True
                        elif (t.get('pointee') or {}).get('k') in ('record', 'union', 'array'):
                            # a reference to an object this walk cannot name would silently be treated as a private local
                            self.an.unresolved.append('%s: reference local %s at %s is bound to an lvalue the alias analysis cannot resolve' % (
                                self.fn['qn'], v.get('name'), loc_str(v)))
                    elif t.get('k') == 'ptr':
                        p = self.pointer(init)
                        if p is not None:
                            self.binds[v['id']] = p
                    elif t.get('k') in ('int', 'bool') and v.get('id') is not None:
                        a = self._affine(init)
                        if a is not None and not a[1] and not a[2] and v['id'] not in self.loop_ivs and v['id'] not in self.multi_written:
                            self.env[v['id']] = ('c', a[0])
            return W, False
        if k == 'return':
            if s.get('e') is not None:
                self.expr(s['e'], W)
            return W, True
        if k == 'if':
            self.expr(s['c'], W)
            cv = self.cond_value(s['c'])
            if cv is True:
                return self.stmt(s['then'], W)
            if cv is False:
                return self.stmt(s.get('else'), W) if s.get('else') else (W, False)
            env0, binds0 = dict(self.env), dict(self.binds)
            W1, t1 = self.stmt(s['then'], list(W))
            env1 = self.env
            self.env, self.binds = dict(env0), dict(binds0)
            W2, t2 = self.stmt(s.get('else'), list(W)) if s.get('else') else (list(W), False)
            # merge constant environment: keep agreeing entries only
            merged = {}
            for kk, v in self.env.items():
                if (t1 or env1.get(kk) == v):
                    merged[kk] = v
            if t2:
                merged = dict(env1)
            self.env = merged
            if t1 and t2:
                return W, True
            out = list(W)
            for part, t in ((W1, t1), (W2, t2)):
                if not t:
                    for x in part:
                        if x not in out:
                            out.append(x)
            return out, False
        if k == 'constexpr_if':
            return self.stmt(s.get('taken'), W)
        if k in ('for', 'while', 'do'):
            return self.loop(s, W), False
        if k == 'switch':
            self.expr(s['c'], W)
            body = s.get('body') or {}
            stmts = body.get('body', []) if body.get('k') == 'compound' else [body]
            segs = []
            cur = None
            for st in stmts:
                while st is not None and st.get('k') in ('case', 'default'):
                    cur = []
                    segs.append(cur)
                    st = st.get('sub')
                if cur is not None and st is not None:
                    cur.append(st)
            out = list(W)
            for seg in segs:
                Wi = list(W)
                for st in seg:
                    if st.get('k') == 'break':
                        break
                    Wi, term = self.stmt(st, Wi)
                    if term:
                        Wi = None
                        break
                if Wi is not None:
                    for x in Wi:
                        if x not in out:
                            out.append(x)
            return out, False
        if k in ('break', 'continue', 'null', 'case', 'default'):
            return W, False
        if k == 'asm':
            return W, False
        raise ValueError('unsupported statement %s at %s' % (k, loc_str(s)))

    def loop(self, s, W):
        k = s['k']
        self.loop_counter += 1
        lid = self.loop_counter
        if k == 'for':
            W, _ = self.stmt(s.get('init'), W)
            iv = self.const_for(s)
            if iv is not None:
                vid, values = iv
                if self.iters + len(values) <= UNROLL_CAP:
                    saved = self.env.get(vid)
                    for v in values:
                        self.iters += 1
                        self.env[vid] = ('c', v)
                        if s.get('c') is not None:
                            self.expr(s['c'], W)
                        W, term = self.stmt(s['body'], W)
                        if term:
                            break
                        # inc: no memory effect on aliased objects
                    self.env.pop(vid, None)
                    if saved is not None:
                        self.env[vid] = saved
                    return W
            # symbolic: two iterations
            sym = self.symbolic_iv(s)
            out = list(W)
            cur = list(W)
            for tag in (1, 2):
                if sym is not None:
                    self.env[sym[0]] = ('iv', lid, tag, sym[1])
                self.drop_modified_consts(s['body'])
                if s.get('c') is not None:
                    self.expr(s['c'], cur)
                cur, term = self.stmt(s['body'], cur)
                if s.get('inc') is not None and sym is None:
                    self.expr(s['inc'], cur)
                for x in cur:
                    if x not in out:
                        out.append(x)
            if sym is not None:
                self.env.pop(sym[0], None)
            return out
        # while / do
        out = list(W)
        cur = list(W)
        for tag in (1, 2):
            self.drop_modified_consts(s['body'])
            if k == 'while':
                self.expr(s['c'], cur)
            cur, term = self.stmt(s['body'], cur)
            if k == 'do':
                self.expr(s['c'], cur)
            for x in cur:
                if x not in out:
                    out.append(x)
        return out

    def drop_modified_consts(self, body):
        for vid in list(self.env):
            if self.env[vid][0] == 'c' and ranges.writes_to(body, vid):
                self.env.pop(vid, None)

    def const_for(self, s):
        """(iv id, [concrete values]) when init/cond/step evaluate to constants under the current env"""
        init, c, inc = s.get('init'), strip(s.get('c')), strip(s.get('inc'))
        if not init or not c or not inc:
            return None
        vid = start = None
        if init.get('k') == 'decl' and len(init['vars']) == 1 and init['vars'][0].get('init') is not None:
            vid = init['vars'][0].get('id')
            a = self._affine(init['vars'][0]['init'])
        elif init.get('k') == 'expr' and strip(init['e']).get('k') == 'assign' and strip(init['e']).get('op') == '=':
            l = strip(strip(init['e'])['lhs'])
            vid = l.get('id') if l.get('k') == 'ref' else None
            a = self._affine(strip(init['e'])['rhs'])
        else:
            return None
        if vid is None or a is None or a[1] or a[2]:
            return None
        start = a[0]
        if inc.get('k') != 'un' or inc.get('op') not in ('++', '--') or strip(inc['e']).get('id') != vid:
            return None
        step = 1 if inc['op'] == '++' else -1
        if c.get('k') != 'bin' or c.get('op') not in ('!=', '<', '<=', '>', '>=') or strip(c['lhs']).get('id') != vid:
            return None
        saved = self.env.pop(vid, None)
        b = self._affine(c['rhs'])
        if saved is not None:
            self.env[vid] = saved
        if b is None or b[1] or b[2]:
            return None
        bound = b[0]
        if ranges.writes_to(s.get('body'), vid):
            return None
        vals = []
        v = start
        op = c['op']
        test = {'!=': lambda x: x != bound, '<': lambda x: x < bound, '<=': lambda x: x <= bound,
                '>': lambda x: x > bound, '>=': lambda x: x >= bound}[op]
        while test(v):
            vals.append(v)
            v += step
            if len(vals) > UNROLL_CAP:
                return None
        return vid, vals

    def symbolic_iv(self, s):
        init, inc = s.get('init'), strip(s.get('inc'))
        if not init or not inc:
            return None
        vid = None
        if init.get('k') == 'decl' and len(init['vars']) == 1:
            vid = init['vars'][0].get('id')
        elif init.get('k') == 'expr' and strip(init['e']).get('k') == 'assign':
            l = strip(strip(init['e'])['lhs'])
            vid = l.get('id') if l.get('k') == 'ref' else None
        if vid is None:
            return None
        if inc.get('k') != 'un' or inc.get('op') not in ('++', '--') or strip(inc['e']).get('id') != vid:
            return None
        if ranges.writes_to(s.get('body'), vid):
            return None
        return vid, (1 if inc['op'] == '++' else -1)

    def run(self):
        body = self.fn['body']
        self.local_is_ref = {}
        # locals never modified inside any loop are loop-invariant symbols for the same-IV rule
        self.invariant_locals = set()
        self.loop_ivs = set()
        self.multi_written = set()
        decls = {}
        for n in walk(body):
            if n.get('k') == 'decl':
                for v in n['vars']:
                    if v.get('id') is not None:
                        decls[v['id']] = v
            if n.get('k') == 'for':
                sym = self.symbolic_iv(n)
                if sym:
                    self.loop_ivs.add(sym[0])
        for vid, v in decls.items():
            if not ranges.writes_to(body, vid):
                self.invariant_locals.add(vid)
            else:
                self.multi_written.add(vid)
        W, _ = self.stmt(body, [])
        return self.hazards


def callee_stub(callee):
    return dict(qn=callee['qn'], params=callee['params'], key=callee['key'])


def strip_casts(e):
    while isinstance(e, dict) and e.get('k') == 'cast' and e.get('ck') in ('NoOp', 'DerivedToBase', 'UncheckedDerivedToBase'):
        if e.get('baseoff'):
            break
        e = e['e']
    return e


def strip_casts_keep_base(e):
    while isinstance(e, dict) and e.get('k') == 'cast' and e.get('ck') == 'NoOp':
        e = e['e']
    return e


_COPY_MEMO = {}


def is_copy_like(prog, fn):
    """A function whose only effect is out := in (memcpy/memmove/copy of the whole object, possibly guarded by
    this != &a): under out==in it writes nothing new."""
    key = fn['key']
    if key in _COPY_MEMO:
        return _COPY_MEMO[key]
    _COPY_MEMO[key] = False
    res = False
    if 'body' in fn:
        calls = [n for n in walk(fn['body']) if n.get('k') == 'call']
        others = [n for n in walk(fn['body']) if n.get('k') in ('assign', 'icall') or (n.get('k') == 'un' and n.get('op') in ('++', '--'))]
        if calls and not others:
            ok = True
            for c in calls:
                if c.get('name') in ('memcpy', 'memmove'):
                    continue
                cal = prog.callee(c, fn)
                if cal is None or not is_copy_like(prog, cal):
                    ok = False
                    break
            res = ok
    _COPY_MEMO[key] = res
    return res
