"""Scheme-level structural rules: C14 (precomputed/direct delegation, merge progress, subtraction mod r) and
C16 (LQ-IBE hash-input agreement)."""
from .facts import walk, strip, loc_str, strip_tmpl
from . import pathrules as pr
from .cfg import CFG
from . import consts, bls, layout
from .reject import global_int
from .cursor import incs_in
from . import buildmodel as bm

WK = 'embedded_pairing::wkdibe::'
LQ = 'embedded_pairing::lqibe::'


# ---------------------------------------------------------------- C14
def rule_delegation(ctx, cfg, prog):
    for name in ('encrypt', 'sign', 'verify'):
        fs = prog.fn_by_qn(WK + name)
        ps = prog.fn_by_qn(WK + name + '_precomputed')
        ctx.require(len(fs) == 1 and len(ps) == 1, 'wkdibe::%s / %s_precomputed not found' % (name, name))
        f, p = fs[0], ps[0]
        cs = pr.calls(f['body'])
        ok = len(cs) == 2 and cs[0]['name'] == 'precompute' and prog.callee(cs[1], f) is p
        why = 'body is not precompute(...) followed by %s_precomputed(...)' % name
        if ok:
            pre, fwd = cs
            loc = pr.canon(pre['args'][0])
            ok = loc.startswith('L') and [pr.norm_obj(pr.canon(a)) for a in pre['args'][1:]] == ['P:params', 'P:attrs']
            why = 'precompute is not called as precompute(<local>, params, attrs)'
            if ok:
                fnames = [x['name'] for x in f['params']]
                for i, cp in enumerate(p['params']):
                    a = pr.canon(fwd['args'][i])
                    if cp['name'] == 'precomputed':
                        if a != loc:
                            ok, why = False, 'the freshly precomputed value is not what is passed as `precomputed`'
                    elif cp['name'] in fnames:
                        if pr.norm_obj(a) != 'P:' + cp['name']:
                            ok, why = False, 'parameter `%s` is not forwarded unchanged (got %s)' % (cp['name'], a)
                    else:
                        ok, why = False, 'callee parameter `%s` has no counterpart' % cp['name']
                # result returned when non-void
                if ok and f['ret'].get('k') != 'void':
                    rets = [x for x in walk(f['body']) if x.get('k') == 'return']
                    ok = len(rets) == 1 and strip(rets[0]['e']) is fwd
                    why = 'the verdict of the precomputed form is not returned'
        ctx.ob('R-WRAP', ok, 'delegate|' + name, loc_str(f),
               'wkdibe::%s must be exactly precompute + %s_precomputed with every other parameter unchanged: %s' % (name, name, why),
               cfg=cfg, sample=dict(config=cfg, function=name, forwards_to=name + '_precomputed'))


def rule_merge_progress(ctx, cfg, prog):
    """cursor discipline of adjust_precomputed's sorted merge: equal indices advance both cursors, otherwise exactly the smaller side;
    each list is drained afterwards.  The outcome of the index comparison on a path is read from ALL the comparisons of the two indices
    on it (any operator, either operand order, values as the group-domain interpreter sees them, so reference locals are expanded);
    loops may be `while` or `for`."""
    from . import grpdom, schemespec
    fs = prog.fn_by_qn(WK + 'adjust_precomputed')
    ctx.require(len(fs) == 1, 'wkdibe::adjust_precomputed not found')
    f = fs[0]
    g = CFG(f)
    loops = [(h, lp) for (h, lp) in g.loops if lp.get('k') in ('while', 'for') and lp.get('c') is not None]
    ctx.require(len(loops) >= 1, 'adjust_precomputed: merge loop not found')
    # cursors: locals compared with `.length` in the first loop's condition
    curs = {}
    for x in walk(loops[0][1]['c']):
        if x.get('k') == 'bin' and x.get('op') == '!=':
            l, r = strip(x['lhs']), pr.norm_obj(pr.canon(x['rhs']))
            if l.get('k') == 'ref' and r.endswith('.length'):
                curs[r[:-len('.length')]] = l['id']
    ctx.require(len(curs) == 2, 'adjust_precomputed: merge cursors not identified')
    names = sorted(curs)
    head, lp = loops[0]
    npaths = 0

    def advances(p):
        return {n: sum(incs_in(g.nodes[nid].ast, curs[n]) for (nid, lab) in p if g.nodes[nid].kind == 'stmt' and g.nodes[nid].ast) for n in names}
    for p in g.paths(head, {head}, allow_back_edges=0):
        if p[-1][0] != head:
            continue
        try:
            seg, conds = grpdom.run_path(prog, f, g, p)
        except grpdom.Unsupported as e:
            raise bm.AnalysisBroken('R-CURSOR cannot model a merge path of adjust_precomputed: %s' % e)
        if seg is None:
            continue
        idxs = sorted({o for (k, lab) in conds if k[0] == 'cmp' for o in (k[2], k[3]) if o.endswith('.idx')})
        fa = [o for o in idxs if o.startswith('from.')]
        ta = [o for o in idxs if o.startswith('to.')]
        poss = schemespec.order(conds, fa[0], ta[0]) if (len(fa) == 1 and len(ta) == 1) else {'lt', 'eq', 'gt'}
        if not poss:
            continue            # contradictory comparisons: infeasible
        npaths += 1
        inc = advances(p)
        kind = {'eq': 'equal', 'lt': 'from<to', 'gt': 'from>to'}[list(poss)[0]] if len(poss) == 1 else '?'
        tot = sum(inc.values())
        ok = tot >= 1 and all(v <= 1 for v in inc.values())
        fn_, tn_ = [n for n in names if 'from' in n], [n for n in names if 'to' in n]
        if kind == 'equal':
            ok = ok and all(v == 1 for v in inc.values())
        elif kind == 'from<to' and fn_:
            ok = ok and inc[fn_[0]] == 1 and tot == 1
        elif kind == 'from>to' and tn_:
            ok = ok and inc[tn_[0]] == 1 and tot == 1
        else:
            ok = False
        ctx.ob('R-CURSOR', ok, 'merge|adjust_precomputed|%s' % kind, loc_str(lp),
               'adjust_precomputed: on the merge path [%s] the cursors advance by %s: equal indices must advance both, otherwise exactly the '
               'smaller side (else the loop stalls or skips an attribute)' % (kind, inc), cfg=cfg,
               sample=dict(config=cfg, path=kind, advances=inc))
    ctx.require(npaths >= 3, 'adjust_precomputed: too few merge paths')
    # drains
    drained = set()
    for (h, dl) in loops[1:]:
        c = strip(dl['c'])
        l = strip(c['lhs']) if c.get('k') == 'bin' else {}
        which = [n for n in names if curs[n] == l.get('id')]
        ok = c.get('op') == '!=' and bool(which) and pr.norm_obj(pr.canon(c['rhs'])) == which[0] + '.length' and \
            all(sum(incs_in(g.nodes[nid].ast, l['id']) for (nid, lab) in p if g.nodes[nid].kind == 'stmt' and g.nodes[nid].ast) == 1
                for p in g.paths(h, {h}, allow_back_edges=0) if p[-1][0] == h)
        if which:
            drained.add(which[0])
        ctx.ob('R-CURSOR', ok, 'merge|drain|%s' % (which[0] if which else '?'), loc_str(dl),
               'adjust_precomputed: each drain loop must consume the rest of one list, one entry per iteration', cfg=cfg)
    # both drains present, after the merge loop
    ctx.ob('R-CURSOR', drained == set(names), 'merge|drain-both', loc_str(f), 'adjust_precomputed must drain both lists after the merge', cfg=cfg)


def rule_mod_r_subtraction(ctx, cfg, prog):
    """(to - from) mod r: a borrow must be repaired by adding r; r - x uses r as minuend"""
    n = 0
    for name in ('adjust_precomputed', 'adjust_nondelegable'):
        fs = prog.fn_by_qn(WK + name)
        ctx.require(len(fs) == 1, 'wkdibe::%s not found' % name)
        f = fs[0]
        g = CFG(f)
        for nd in g.nodes:
            if nd.ast is None or nd.kind not in ('stmt', 'cond'):
                continue
            for c in pr.calls(nd.ast):
                if c['name'] != 'subtract' or c.get('this') is None:
                    continue
                n += 1
                minuend_val = global_int(prog, c['args'][0])
                if minuend_val == bls.R_ORDER:
                    ctx.ob('R-CONST', True, '', '', '', cfg=cfg)
                    continue
                # id difference: must be an atomic condition whose true edge adds r
                ok = nd.kind == 'cond' and strip(nd.ast) is c
                why = 'the borrow of the subtraction is discarded'
                if ok:
                    ok = False
                    why = 'no `add(diff, r)` on the borrow edge'
                    for (y, lab) in nd.succ:
                        if lab is True:
                            adds = [a for a in pr.calls(g.nodes[y].ast or {}) if a['name'] == 'add' and pr.canon(a['this']) == pr.canon(c['this'])]
                            if adds and global_int(prog, adds[0]['args'][1]) == bls.R_ORDER and pr.canon(adds[0]['args'][0]) == pr.canon(c['this']):
                                ok = True
                ctx.ob('R-CONST', ok, 'modr|%s|%s' % (name, loc_str(c).split(':')[-1]), loc_str(c),
                       '%s: identity difference modulo r: %s' % (name, why), cfg=cfg,
                       sample=dict(config=cfg, function=name, site=loc_str(c)))
    ctx.floor('mod-r subtractions[%s]' % cfg, n, 3)


# ---------------------------------------------------------------- C16
def hash_fill_shape(prog, f):
    """[(buffer member, codec, source object)], hash call args"""
    fills = []
    buf = None
    for n in walk(f['body']):
        if n.get('k') == 'decl':
            for v in n['vars']:
                if (v.get('t') or {}).get('rec', '').endswith('SymmetricKeyHashBuffer'):
                    buf = 'L%d' % v['id']
    if buf is None:
        return None, None, None
    for c in pr.calls(f['body']):
        th = pr.norm_obj(pr.canon(c['this'])) if c.get('this') is not None else ''
        args = [pr.norm_obj(pr.canon(a)) for a in c.get('args', [])]
        if th.startswith(buf + '.'):
            fills.append((th[len(buf) + 1:], c['name'], args[0] if args else None))
        for i, a in enumerate(args):
            if a.startswith(buf + '.') and c['name'] in ('write_big_endian',):
                fills.append((a[len(buf) + 1:], c['name'], 'pairing-result' if th.startswith('L') else th))
    icalls = [x for x in walk(f['body']) if x.get('k') == 'icall']
    return buf, fills, icalls


def rule_lqibe(ctx, cfg, prog):
    enc = prog.fn_by_qn(LQ + 'encrypt')
    dec = prog.fn_by_qn(LQ + 'decrypt')
    kg = prog.fn_by_qn(LQ + 'keygen')
    ctx.require(len(enc) == 1 and len(dec) == 1 and len(kg) == 1, 'lqibe encrypt/decrypt/keygen not found')
    enc, dec, kg = enc[0], dec[0], kg[0]
    be, fe, ie = hash_fill_shape(prog, enc)
    bd, fd, idc = hash_fill_shape(prog, dec)
    ctx.require(be and bd, 'SymmetricKeyHashBuffer local not found in encrypt/decrypt')
    rec = [r for nme, r in prog.records.items() if nme.endswith('lqibe::SymmetricKeyHashBuffer')]
    ctx.require(len(rec) == 1, 'SymmetricKeyHashBuffer record not found')
    rec = rec[0]
    members = [f['name'] for f in rec['fields']]
    ctx.ob('R-PAIR', sorted(fe) == sorted(fd), 'hash|same-input', loc_str(dec),
           'LQ-IBE decrypt fills the hash input as %s, encrypt as %s: the derived keys differ' % (sorted(fd), sorted(fe)), cfg=cfg,
           sample=dict(config=cfg, encrypt=str(sorted(fe)), decrypt=str(sorted(fd))))
    for nm, fl, f in (('encrypt', fe, enc), ('decrypt', fd, dec)):
        written = [m for (m, c, s) in fl]
        ctx.ob('R-PAIR', sorted(written) == sorted(members), 'hash|all-members|' + nm, loc_str(f),
               'lqibe::%s writes hash-buffer members %s; the struct has %s (an unwritten member hashes uninitialised stack bytes, a '
               'doubly written one hides a field)' % (nm, written, members), cfg=cfg)
    # no padding in the hashed struct
    t = [tt for tt in prog.types.values() if tt.get('rec', '').endswith('lqibe::SymmetricKeyHashBuffer')]
    pad = layout.padding(prog, t[0]) if t else [0]
    ctx.ob('R-LAYOUT', not pad and rec['align'] == 1, 'hash|nopadding', loc_str(rec),
           'SymmetricKeyHashBuffer has %d padding byte(s) (alignof %s): uninitialised bytes would be hashed' % (len(pad), rec['align']), cfg=cfg)
    # the hash callback receives (symmetric, symmetric_length, &buffer, sizeof(buffer)), after the fills
    for nm, f, ic, buf in (('encrypt', enc, ie, be), ('decrypt', dec, idc, bd)):
        ok = len(ic) == 1
        if ok:
            a = [pr.norm_obj(pr.canon(x)) for x in ic[0]['args']]
            ok = pr.canon(ic[0]['fn']) == 'P:hash_fill' and a[0] == 'P:symmetric' and a[1] == 'P:symmetric_length' and a[2].lstrip('&') == buf and \
                strip(ic[0]['args'][3]).get('cv') == str(rec['size'])
            g = CFG(f)
            hn = [n for n in g.stmt_nodes() if any(x is ic[0] for x in walk(n.ast))]
            fill_nodes = [n for n in g.stmt_nodes() if any(x.get('k') == 'call' and x.get('this') is not None and
                                                           (pr.norm_obj(pr.canon(x['this'])).startswith(buf + '.') or
                                                            any(pr.norm_obj(pr.canon(aa)).startswith(buf + '.') for aa in x.get('args', [])))
                                                           for x in walk(n.ast))]
            ok = ok and bool(hn) and all(g.must_pass_node(fn_.id, hn[0].id) for fn_ in fill_nodes) and len(fill_nodes) >= 3
        ctx.ob('R-PAIR', ok, 'hash|call|' + nm, loc_str(f),
               'lqibe::%s must call hash_fill(symmetric, symmetric_length, &buffer, sizeof(buffer)) once, after all three members are filled' % nm,
               cfg=cfg)
    # roles
    def pairing_args(f):
        lp = {}
        for c in pr.calls(f['body']):
            if c['name'] == 'from_projective' and c.get('this') is not None:
                lp[pr.canon(c['this'])] = pr.norm_obj(pr.canon(c['args'][0]))
        out = []
        for c in pr.calls(f['body']):
            if c['name'] == 'pairing':
                out.append([lp.get(pr.canon(a), pr.norm_obj(pr.canon(a))) for a in c['args'][1:]])
        return out, lp
    pe, lpe = pairing_args(enc)
    pd, _ = pairing_args(dec)
    mf = {}
    for c in pr.calls(enc['body']):
        if c['name'] == 'multiply_frobenius':
            mf[pr.canon(c['this'])] = [pr.norm_obj(pr.canon(a)) for a in c['args']]
    rsp_local = [k for k, v in mf.items() if v and v[0] == 'P:params.sp']
    rp_local = [k for k, v in mf.items() if v and v[0] == 'P:params.p']
    ok = len(pe) == 1 and pe[0][0] == 'P:id.q' and rsp_local and pe[0][1] == rsp_local[0] and rp_local and \
        mf[rsp_local[0]][1] == mf[rp_local[0]][1] and lpe.get('P:ciphertext.rp') == rp_local[0]
    ctx.ob('R-PAIR', ok, 'roles|encrypt', loc_str(enc),
           'lqibe::encrypt must pair id.q with r*sP and publish r*P with the same randomness r (got pairing args %s, multiplications %s)' % (pe, mf),
           cfg=cfg)
    ctx.ob('R-PAIR', pd == [['P:sk.sq', 'P:ciphertext.rp']], 'roles|decrypt', loc_str(dec),
           'lqibe::decrypt must pair sk.sq with ciphertext.rp (got %s)' % pd, cfg=cfg)
    muls = [c for c in pr.calls(kg['body']) if c['name'] == 'multiply']
    okk = len(muls) == 1 and [pr.norm_obj(pr.canon(a)) for a in muls[0]['args']] == ['P:id.q', 'P:msk.s']
    fp = [c for c in pr.calls(kg['body']) if c['name'] == 'from_projective']
    okk = okk and len(fp) == 1 and pr.norm_obj(pr.canon(fp[0]['this'])) == 'P:sk.sq' and pr.canon(fp[0]['args'][0]) == pr.canon(muls[0]['this'])
    ctx.ob('R-PAIR', okk, 'roles|keygen', loc_str(kg), 'lqibe::keygen must set sk.sq = msk.s * id.q', cfg=cfg)


# ---------------------------------------------------------------- C13
def rule_signature_structure(ctx, cfg, prog):
    sp = prog.fn_by_qn(WK + 'sign_precomputed')
    vp = prog.fn_by_qn(WK + 'verify_precomputed')
    ctx.require(len(sp) == 1 and len(vp) == 1, 'wkdibe::sign_precomputed / verify_precomputed not found')
    sp, vp = sp[0], vp[0]

    def binding(f):
        """local L with L.multiply(params.hsig, message); L.add(L, precomputed.prodexp)"""
        out = []
        for c in pr.calls(f['body']):
            if c['name'] == 'multiply' and [pr.norm_obj(pr.canon(a)) for a in c['args']] == ['P:params.hsig', 'P:message']:
                L = pr.canon(c['this'])
                adds = [a for a in pr.calls(f['body']) if a['name'] == 'add' and pr.canon(a['this']) == L and
                        [pr.norm_obj(pr.canon(x)) for x in a['args']] == [L, 'P:precomputed.prodexp']]
                if adds:
                    out.append(L)
        return out
    bs, bv = binding(sp), binding(vp)
    ctx.ob('R-PAIR', len(bs) == 1 and len(bv) == 1, 'sig|binding', loc_str(vp),
           'signer and verifier must bind the message the same way (hsig^message * prodexp): signer %s, verifier %s' % (bs, bv), cfg=cfg,
           sample=dict(config=cfg, signer_term=bs, verifier_term=bv))
    # the signer also binds the message through the key's own signature component
    ok = any(c['name'] == 'multiply' and [pr.norm_obj(pr.canon(a)) for a in c['args']] == ['P:sk.bsig', 'P:message'] and
             pr.norm_obj(pr.canon(c['this'])) == 'P:signature.a0' for c in pr.calls(sp['body']))
    ctx.ob('R-PAIR', ok, 'sig|bsig', loc_str(sp), 'sign_precomputed must start a0 from sk.bsig^message', cfg=cfg)
    # verifier: ratio of exactly two pairings compared with the public pairing value
    lp = {}
    for c in pr.calls(vp['body']):
        if c['name'] == 'from_projective' and c.get('this') is not None:
            lp[pr.canon(c['this'])] = pr.norm_obj(pr.canon(c['args'][0]))
    negs = [pr.canon(c['this']) for c in pr.calls(vp['body']) if c['name'] == 'negate' and pr.canon(c['this']) == pr.canon(c['args'][0])]
    asg = {}
    for x in walk(vp['body']):
        if x.get('k') == 'assign' and '.g' in pr.canon(x['lhs']):
            asg[pr.norm_obj(pr.canon(x['lhs']))] = lp.get(pr.norm_obj(pr.canon(x['rhs'])).lstrip('&'), pr.norm_obj(pr.canon(x['rhs'])))
    pairs = sorted(asg.items())
    want_pairs = {('P:signature.a0', 'P:params.g'), (bv[0] if bv else '?', 'P:signature.a1')}
    got_pairs = set()
    keys = sorted(set(k.rsplit('.', 1)[0] for k in asg))
    for k in keys:
        got_pairs.add((asg.get(k + '.g1'), asg.get(k + '.g2')))
    pp = [c for c in pr.calls(vp['body']) if c['name'] == 'pairing_product']
    okp = len(pp) == 1 and strip(pp[0]['args'][2]).get('cv') == '2' and strip(pp[0]['args'][4]).get('cv') == '0'
    rets = [x for x in walk(vp['body']) if x.get('k') == 'return']
    okr = len(rets) == 1 and any(c['name'] == 'equal' and 'P:params.pairing' in [pr.norm_obj(pr.canon(a)) for a in c['args']] and
                                 pr.canon(pp[0]['args'][0]) in [pr.canon(a) for a in c['args']] for c in pr.calls(rets[0])) if pp else False
    okn = len(negs) == 1 and lp.get(negs[0]) == (bv[0] if bv else None)
    ctx.ob('R-PAIR', got_pairs == want_pairs and okp and okr and okn, 'sig|equation', loc_str(vp),
           'verify_precomputed must return equal(e(a0, g) * e(-(hsig^m * prodexp), a1), params.pairing): pairs %s, product of two=%s, '
           'verdict=%s, one negation of the bound term=%s' % (sorted(got_pairs, key=str), okp, okr, okn), cfg=cfg)
    # free-slot fill loop of the signer: cursor k advances past smaller indices, stops at the end, consumes a match
    g = CFG(sp)
    loops = [(h, lp_) for (h, lp_) in g.loops if lp_.get('k') == 'for']
    ctx.require(len(loops) == 1, 'sign_precomputed: fill loop not found')
    h, lp_ = loops[0]
    kid = None
    lb = pr.local_binds(sp)
    for x in walk(lp_['body']):
        if x.get('k') == 'index' and pr.norm_obj(pr.canon(x['base'], lb)).endswith('attrs.attrs'):
            kid = strip(x['idx']).get('id')
    ok = kid is not None
    if ok:
        for p in g.paths(h, {h}, allow_back_edges=1):
            if p[-1][0] != h:
                continue
            # the slot index and the attribute index compare equal on this path: read from ALL their comparisons (any operator / order)
            from . import grpdom, schemespec
            try:
                seg_, conds_ = grpdom.run_path(prog, sp, g, p)
            except grpdom.Unsupported as ex:
                raise bm.AnalysisBroken('R-CURSOR cannot model a path of the fill loop of sign_precomputed: %s' % ex)
            if seg_ is None:
                continue
            # the pair compared LAST on the path (the attribute cursor may have moved through the skip loop before)
            sa_ = aa_ = []
            for (k_, lab_) in conds_:
                if k_[0] == 'cmp' and k_[2].endswith('.idx') and k_[3].endswith('.idx'):
                    ops = (k_[2], k_[3])
                    s1 = [o for o in ops if o.startswith('sk.')]
                    a1 = [o for o in ops if 'attrs' in o and not o.startswith('sk.')]
                    if len(s1) == 1 and len(a1) == 1:
                        sa_, aa_ = s1, a1
            poss_ = schemespec.order(conds_, sa_[0], aa_[0]) if (len(sa_) == 1 and len(aa_) == 1) else {'lt', 'eq', 'gt'}
            if not poss_:
                continue
            matched = poss_ == {'eq'}
            inc = sum(incs_in(g.nodes[nid].ast, kid) for (nid, lab) in p if g.nodes[nid].kind == 'stmt' and g.nodes[nid].ast is not None)
            contributes = any(c['name'] == 'multiply' and any('.hexp' in pr.canon(a, lb) for a in c['args']) for (nid, lab) in p
                              if g.nodes[nid].kind == 'stmt' and g.nodes[nid].ast is not None for c in pr.calls(g.nodes[nid].ast))
            if matched and not (inc >= 1 and contributes):
                ok = False
            if not matched and contributes:
                ok = False
    ctx.ob('R-CURSOR', ok, 'sig|fill', loc_str(lp_),
           'sign_precomputed: a free slot whose index equals the current attribute must contribute b[i]^id and advance the attribute cursor; '
           'no other path may contribute', cfg=cfg)
