"""Build model: re-derives the unit list and flags from /repo's Makefile conventions on
every run and instantiates them for the analysis configurations (DESIGN.md 0.1)."""
import glob
import os
import subprocess
import sys
import json
import hashlib
import shutil
from concurrent.futures import ThreadPoolExecutor

VERIF = os.path.dirname(os.path.dirname(os.path.abspath(__file__)))
REPO = os.environ.get('JPV_REPO', '/repo')
BUILD = os.path.join(VERIF, 'build')
JPFACTS = os.path.join(BUILD, 'jpfacts')
NCPU = os.cpu_count() or 4


class AnalysisBroken(Exception):
    """An anchor vanished / a configuration failed to parse / a floor was not met."""


def resource_dir():
    return subprocess.check_output(['clang', '-print-resource-dir'], text=True).strip()


_RES = None


def _res():
    global _RES
    if _RES is None:
        _RES = resource_dir()
    return _RES


# name -> (arch dir, extra flags, word bits, description)
def configs():
    free = ['-ffreestanding', '-nostdinc', '-nostdinc++', '-isystem', os.path.join(_res(), 'include'),
            '-isystem', os.path.join(VERIF, 'stubs')]
    m0 = ['--target=thumbv6m-none-eabi', '-mcpu=cortex-m0plus', '-mthumb', '-mfloat-abi=soft',
          '-fshort-enums', '-fno-builtin', '-fno-threadsafe-statics'] + free
    return {
        'x64-asm': dict(arch='x86_64', flags=[], words=64, asm=True, tier='quick'),
        'x64-port': dict(arch='x86_64', flags=['-DDISABLE_ASM'], words=64, asm=False, tier='quick'),
        'm0-asm': dict(arch='armv6_m', flags=m0, words=32, asm=True, tier='quick'),
        'm0-port': dict(arch='armv6_m', flags=m0 + ['-DDISABLE_ASM'], words=32, asm=False, tier='quick'),
        'a64-asm': dict(arch='aarch64', flags=['--target=aarch64-none-elf'] + free, words=64, asm=True, tier='quick'),
    }


def config_names(tier):
    c = configs()
    if tier == 'quick':
        return [n for n in c if c[n]['tier'] == 'quick']
    return list(c)


def base_flags():
    return ['-std=c++17', '-I' + os.path.join(REPO, 'include'), '-UNDEBUG', '-Wno-everything']


def cpp_units(cfg):
    """The Makefile's PAIRING_CPP_SOURCES wildcards, evaluated on the current tree."""
    arch = configs()[cfg]['arch']
    pats = ['src/core/*.cpp', 'src/bls12_381/*.cpp', 'src/wkdibe/*.cpp', 'src/lqibe/*.cpp',
            'src/core/arch/%s/*.cpp' % arch]
    out = []
    for p in pats:
        out += sorted(glob.glob(os.path.join(REPO, p)))
    return out


def asm_units(cfg):
    arch = configs()[cfg]['arch']
    return sorted(glob.glob(os.path.join(REPO, 'src/core/arch/%s/*.s' % arch)))


def flags_for(cfg):
    return base_flags() + configs()[cfg]['flags']


def _run_one(job):
    cfg, src, out, extra = job
    cmd = [JPFACTS, src, '-o', out, '--'] + flags_for(cfg) + extra
    p = subprocess.run(cmd, stdout=subprocess.PIPE, stderr=subprocess.PIPE, text=True)
    ok = p.returncode == 0 and os.path.exists(out) and os.path.getsize(out) > 0
    return (cfg, src, out, ok, p.stderr[-2000:])


def extract(cfgs, outdir, extra_units=None):
    """Run jpfacts for every (config, unit). extra_units: list of (path, extra flags) added to
    every config (analysis-only instantiation driver / fixtures).  Returns {cfg: [json paths]}."""
    if not os.path.exists(JPFACTS):
        raise AnalysisBroken('build/jpfacts missing: run ./setup.sh')
    jobs = []
    result = {}
    for cfg in cfgs:
        d = os.path.join(outdir, cfg)
        if os.path.isdir(d):
            shutil.rmtree(d)
        os.makedirs(d, exist_ok=True)
        units = [(u, []) for u in cpp_units(cfg)] + list(extra_units or [])
        if not cpp_units(cfg):
            raise AnalysisBroken('no translation units found under %s for %s' % (REPO, cfg))
        result[cfg] = []
        for (u, extra) in units:
            tag = os.path.relpath(u, REPO if u.startswith(REPO) else VERIF).replace('/', '__')
            out = os.path.join(d, tag + '.json')
            jobs.append((cfg, u, out, extra))
            result[cfg].append(out)
    with ThreadPoolExecutor(max_workers=NCPU) as ex:
        res = list(ex.map(_run_one, jobs))
    bad = [r for r in res if not r[3]]
    if bad:
        msg = '\n'.join('%s %s: %s' % (r[0], r[1], r[4]) for r in bad)
        raise AnalysisBroken('jpfacts failed (the tree does not parse in some configuration):\n' + msg)
    return result
