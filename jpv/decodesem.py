"""R-MUSTPASS/identity by word-level symbolic execution: what the accepting identity path of Encoding::decode(g, checked=true) knows.

The routine is executed (cppword machine, bytes of `data` as inputs, `checked` = true) with every path that leaves the identity branch
abandoned (any call on the output point other than copy() ends the path).  On every remaining path that returns true with the infinity
flag set, the path facts must force   data[i] == 0 for 1 <= i < sizeof(data)   and   (data[0] & 0x3f) == 0   (bits other than the
compressed / infinity flags; the compressed flag itself is the `form` obligation).  Loop form, helper functions, pointer walks and
boolean locals are the machine's business, not the rule's."""
from .facts import strip, strip_tmpl, loc_str, walk
from .cppword import CppMachine, St, Path, Frame, Unsupported, path_normal, ZPoly, ZERO
from . import cppword

NS = 'embedded_pairing::bls12_381::'


def identity_paths(prog, f, wordbits, size):
    """[(state, trace)] of accepting paths with the infinity bit set; raises Unsupported"""
    m = CppMachine(prog, wordbits, {'THIS': (size * 8 + wordbits - 1) // wordbits})
    m.topdown_splits = True
    m.junk_locals = True
    gp = f['params'][0]
    cp = [p for p in f['params'] if p.get('name') == 'checked']
    if not cp:
        raise Unsupported('no `checked` parameter')

    def on_point(e, st):
        th = e.get('this')
        roots = []
        for x in ([th] if th is not None else []) + list(e.get('args', [])):
            for y in walk(x):
                if y.get('k') == 'ref' and y.get('rk') in ('param', 'local'):
                    roots.append(y.get('id'))
        return roots

    prev_call = m.call

    def call(st, e):
        cal = prog.callee(e, st.fr.fn)
        name = e.get('name')
        if len(st.frames) == 1:
            ids = on_point(e, st)
            local_objs = [i for i in ids if isinstance(st.fr.vars.get(i), tuple) and st.fr.vars[i][1] != 'THIS']
            if gp['id'] in ids or local_objs:
                if name == 'copy':
                    st.fr.ret_from_call = None
                    return [st]
                st.p.trace.append('left the identity branch at %s' % loc_str(e))
                return []          # the finite-point branch: not this rule's business
        return prev_call(st, e)
    m.call = call
    st = St(Path(), [Frame(f, ('THIS', 0))])
    st.fr.vars[gp['id']] = ('obj', 'G', 0)
    st.fr.vars[cp[0]['id']] = ZPoly.const(1)
    finals = m.exec(st, f['body'])
    return m, finals


def check_identity(prog, f, wordbits, size, flags_infinity=0x40, flags_compressed=0x80):
    """(ok, [messages], n_paths)"""
    m, finals = identity_paths(prog, f, wordbits, size)
    msgs = []
    n = 0
    for s in finals:
        ret = s.fr.ret if hasattr(s.fr, 'ret') else None
        if not isinstance(ret, ZPoly):
            continue
        rv = m.subst(s, ret)
        if rv.is_const() and rv.const_value() == 0:
            continue
        b0 = m.rd(s, 'THIS', 0, 1)
        inf = path_normal(m, s, m.split(m.split(b0, 6)[1], 1)[0])
        if inf.is_const() and inf.const_value() == 0:
            continue               # a finite-point path that survived (not expected)
        if not (inf.is_const() and inf.const_value() == 1):
            msgs.append('an accepting path does not decide the infinity flag')
            continue
        n += 1
        low = path_normal(m, s, m.split(b0, 6)[0])
        if not low.is_zero():
            msgs.append('flag-residue|accepts an identity encoding whose first byte has bits other than the compressed / infinity flags set')
        bad = []
        for i in range(1, size):
            bi = path_normal(m, s, m.rd(s, 'THIS', i, 1))
            if not bi.is_zero():
                bad.append(i)
        if bad:
            msgs.append('padding|accepts an identity encoding with a non-zero byte at offset%s %s' %
                        ('s' if len(bad) > 1 else '', ', '.join(map(str, bad[:6])) + (' ...' if len(bad) > 6 else '')))
    return (not msgs, msgs, n)
