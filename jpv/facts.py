"""Loader for jpfacts output: one Program per analysis configuration."""
import json
import os
from . import buildmodel as bm


def relpath(p):
    p = os.path.normpath(p)
    for root in (bm.REPO, bm.VERIF):
        r = os.path.normpath(root)
        if p.startswith(r + os.sep):
            return os.path.relpath(p, r)
    return p


class Program:
    def __init__(self, cfg):
        self.cfg = cfg
        self.functions = {}     # id -> function dict (with body if any TU had one)
        self.globals = {}       # id -> global dict
        self.records = {}       # name -> record dict
        self.record_conflicts = []
        self.types = {}         # type string -> type dict
        self.units = []
        self.pointer_bits = None
        self.triple = None

    # ---- type interning ----
    def _intern_types(self, tlist):
        out = []
        for t in tlist:
            s = t['s']
            cur = self.types.get(s)
            if cur is None:
                cur = dict(t)
                self.types[s] = cur
            out.append(cur)
        # resolve indices lazily below (pointee/elem are indices into the TU table)
        for t, cur in zip(tlist, out):
            for key in ('pointee', 'elem'):
                if key in t and isinstance(t[key], int):
                    cur[key] = out[t[key]] if t[key] >= 0 else None
        return out

    def load_unit(self, path):
        with open(path) as f:
            d = json.load(f)
        self.units.append(path)
        self.pointer_bits = d['pointer_bits']
        self.triple = d['triple']
        files = [relpath(x) for x in d['files']]
        types = self._intern_types(d['types'])
        tu = os.path.basename(path)[:-5]

        def fix(n):
            stack = [n]
            while stack:
                x = stack.pop()
                if isinstance(x, dict):
                    t = x.get('t')
                    if isinstance(t, int):
                        x['t'] = types[t] if t >= 0 else None
                    for key in ('of', 'ret', 'this_t'):
                        v = x.get(key)
                        if isinstance(v, int) and key in x and not isinstance(v, bool):
                            x[key] = types[v] if v >= 0 else None
                    l = x.get('l')
                    if isinstance(l, list) and len(l) == 3 and isinstance(l[0], int):
                        x['l'] = (files[l[0]], l[1], l[2])
                    dl = x.get('decl_l')
                    if isinstance(dl, list) and len(dl) == 3 and isinstance(dl[0], int):
                        x['decl_l'] = (files[dl[0]], dl[1], dl[2])
                    for k, v in x.items():
                        if k in ('t', 'of', 'ret', 'this_t', 'l', 'decl_l'):
                            continue
                        if isinstance(v, (dict, list)):
                            stack.append(v)
                elif isinstance(x, list):
                    for v in x:
                        if isinstance(v, (dict, list)):
                            stack.append(v)

        for r in d['records']:
            fix(r)
            name = r['name']
            cur = self.records.get(name)
            if cur is None:
                self.records[name] = r
                r['tu'] = tu
            else:
                if (cur['size'], cur['align'], [(f['name'], f['off']) for f in cur['fields']]) != \
                   (r['size'], r['align'], [(f['name'], f['off']) for f in r['fields']]):
                    self.record_conflicts.append((name, cur['tu'], tu))
        for g in d['globals']:
            fix(g)
            g['tu'] = tu
            gid = g['id']
            if g.get('linkage') == 'internal' and not g.get('static_member'):
                # internal-linkage globals declared in headers are per-TU copies of the same thing;
                # keep one, prefer a definition with a value
                pass
            cur = self.globals.get(gid)
            if cur is None:
                self.globals[gid] = g
                g['tus'] = [tu]
            else:
                cur['tus'].append(tu)
                better = ('value' in g and 'value' not in cur) or (g.get('is_def') and not cur.get('is_def'))
                if better:
                    g['tus'] = cur['tus']
                    self.globals[gid] = g
        for fn in d['functions']:
            fix(fn)
            fn['tu'] = tu
            fid = fn['id']
            if fn.get('linkage') == 'internal':
                # file-local function: unique per defining file
                fn['key'] = fid + '@' + (fn['l'][0] if fn.get('l') else tu)
            else:
                fn['key'] = fid
            cur = self.functions.get(fn['key'])
            if cur is None or ('body' in fn and 'body' not in cur):
                if cur is not None:
                    fn['tus'] = cur['tus'] + [tu]
                else:
                    fn['tus'] = [tu]
                self.functions[fn['key']] = fn
            else:
                cur['tus'].append(tu)

    # ---- queries ----
    def fn_by_qn(self, qn, with_body=True):
        return [f for f in self.functions.values() if f['qn'] == qn and (not with_body or 'body' in f)]

    def fns_matching(self, pred, with_body=True):
        return [f for f in self.functions.values() if (not with_body or 'body' in f) and pred(f)]

    def callee(self, call, caller=None):
        """Resolve a call node to a function dict (or None for externals)."""
        fid = call.get('f')
        if fid is None:
            return None
        f = self.functions.get(fid)
        if f is not None:
            return f
        # internal-linkage callee: same file as caller
        cands = [x for k, x in self.functions.items() if k.startswith(fid + '@')]
        if caller is not None:
            for x in cands:
                if x['tu'] in caller.get('tus', [caller.get('tu')]):
                    return x
        return cands[0] if cands else None


PROG_OF = {}     # id(function dict) -> Program (for analyses that are handed a function and need to resolve its callees)


def load(cfg, paths):
    p = Program(cfg)
    for path in paths:
        p.load_unit(path)
    for f in p.functions.values():
        PROG_OF[id(f)] = p
    # file-local helpers that did not exist when the rule tables were written are substituted back into their callers (jpv/normalise.py)
    from . import normalise
    p.dissolved = normalise.dissolve_new_helpers(p)
    return p


# ---------- generic AST helpers ----------
CHILD_KEYS = ('body', 'then', 'else', 'taken', 'init', 'inc', 'c', 'e', 'lhs', 'rhs', 'base', 'idx', 'this',
              'args', 'inits', 'vars', 'sub', 'v', 'fn', 'children', 'condvar', 'via', 'default', 'closure')


def walk(n):
    """Pre-order walk over every dict node of a body/expression tree."""
    stack = [n]
    while stack:
        x = stack.pop()
        if isinstance(x, dict):
            yield x
            for k in reversed(CHILD_KEYS):
                v = x.get(k)
                if isinstance(v, (dict, list)):
                    stack.append(v)
        elif isinstance(x, list):
            for v in reversed(x):
                if isinstance(v, (dict, list)):
                    stack.append(v)


def loc_str(n):
    l = n.get('l') if isinstance(n, dict) else None
    if not l:
        return '?'
    return '%s:%d' % (l[0], l[1])


def strip(e):
    """Strip value-preserving wrappers (loads, implicit no-op style casts)."""
    while isinstance(e, dict):
        if e.get('k') == 'load':
            e = e['e']
        elif e.get('k') == 'cast' and e.get('ck') in ('NoOp', 'IntegralCast', 'IntegralToBoolean', 'LValueToRValue'):
            e = e['e']
        else:
            break
    return e


def strip_tmpl(qn):
    """Drop template argument lists from a qualified name: a::B<3>::f<4> -> a::B::f"""
    out = []
    depth = 0
    for ch in qn:
        if ch == '<':
            depth += 1
        elif ch == '>':
            depth -= 1
        elif depth == 0:
            out.append(ch)
    return ''.join(out)
