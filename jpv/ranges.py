"""Interval analysis of index expressions over constant-bounded induction variables (R-BOUNDS)."""
from .facts import walk, strip, loc_str


def _cv(e):
    e = strip(e)
    if isinstance(e, dict) and 'cv' in e:
        return int(e['cv'])
    return None


def _local_ref(e):
    e = strip(e)
    if isinstance(e, dict) and e.get('k') == 'ref' and e.get('rk') in ('local', 'param'):
        return e['id']
    return None


def writes_to(body, vid):
    """does `body` write the local `vid` (assignment, ++/--, address taken)?"""
    for n in walk(body):
        k = n.get('k')
        if k == 'assign' and _local_ref(n['lhs']) == vid and strip(n['lhs']).get('k') == 'ref':
            return True
        if k == 'un' and n.get('op') in ('++', '--') and _local_ref(n['e']) == vid:
            return True
        if k == 'un' and n.get('op') == '&' and _local_ref(n['e']) == vid and strip(n['e']).get('k') == 'ref':
            return True
    return False


def for_iv(s, env):
    """(var id, lo, hi) for a `for` with constant-evaluable bounds and unit step, else None."""
    init, c, inc = s.get('init'), s.get('c'), s.get('inc')
    if not init or not c or not inc:
        return None
    vid = None
    start = None
    if init.get('k') == 'decl' and len(init['vars']) == 1 and init['vars'][0].get('init') is not None:
        vid = init['vars'][0].get('id')
        start = eval_range(init['vars'][0]['init'], env)
    elif init.get('k') == 'expr' and strip(init['e']).get('k') == 'assign' and strip(init['e']).get('op') == '=':
        a = strip(init['e'])
        vid = _local_ref(a['lhs'])
        start = eval_range(a['rhs'], env)
    if vid is None or start is None:
        return None
    inc = strip(inc)
    step = None
    if inc.get('k') == 'un' and inc.get('op') in ('++', '--') and _local_ref(inc['e']) == vid:
        step = 1 if inc['op'] == '++' else -1
    if step is None:
        return None
    c = strip(c)
    # allow `A && i != B` style? only the simple comparison
    if c.get('k') != 'bin' or c.get('op') not in ('!=', '<', '<=', '>', '>='):
        return None
    if _local_ref(c['lhs']) != vid:
        return None
    bound = eval_range(c['rhs'], env)
    if bound is None:
        return None
    if writes_to(s.get('body'), vid):
        return None
    op = c['op']
    if step == 1:
        if op == '!=':
            if start[1] > bound[0]:
                return None
            return (vid, start[0], bound[1] - 1)
        if op == '<':
            return (vid, start[0], bound[1] - 1)
        if op == '<=':
            return (vid, start[0], bound[1])
    else:
        if op == '!=':
            if start[0] < bound[1]:
                return None
            return (vid, bound[0] + 1, start[1])
        if op == '>':
            return (vid, bound[0] + 1, start[1])
        if op == '>=':
            return (vid, bound[0], start[1])
    return None


def eval_range(e, env):
    """interval (lo, hi) of integer expression e, or None if it depends on runtime data."""
    e = strip(e)
    if not isinstance(e, dict):
        return None
    if 'cv' in e:
        v = int(e['cv'])
        return (v, v)
    k = e.get('k')
    if k == 'ref':
        if e.get('rk') in ('local', 'param') and e['id'] in env:
            return env[e['id']]
        return None
    if k == 'cast':
        inner = eval_range(e['e'], env)
        if inner is None:
            return None
        t = e.get('t') or {}
        # a narrowing / sign-changing cast keeps the interval only if it fits the destination
        if t.get('k') in ('int', 'bool', 'enum') and 'size' in t:
            bits = 8 * t['size']
            lo, hi = (-(1 << (bits - 1)), (1 << (bits - 1)) - 1) if t.get('signed') else (0, (1 << bits) - 1)
            if inner[0] >= lo and inner[1] <= hi:
                return inner
            return None
        return inner
    if k == 'un':
        a = eval_range(e['e'], env)
        if a is None:
            return None
        if e['op'] == '-':
            return (-a[1], -a[0])
        if e['op'] == '+':
            return a
        return None
    if k == 'bin':
        op = e['op']
        a = eval_range(e['lhs'], env)
        b = eval_range(e['rhs'], env)
        if op == '&':
            for x, y in ((a, b), (b, a)):
                if x is not None and x[0] == x[1] and x[0] >= 0:
                    return (0, x[0])
            return None
        if a is None or b is None:
            if op == '%' and b is not None and b[0] == b[1] and b[0] > 0:
                lt = (strip(e['lhs']).get('t') or {})
                if lt.get('k') == 'int' and not lt.get('signed'):
                    return (0, b[0] - 1)
            return None
        if op == '+':
            return (a[0] + b[0], a[1] + b[1])
        if op == '-':
            return (a[0] - b[1], a[1] - b[0])
        if op == '*':
            c = [a[0] * b[0], a[0] * b[1], a[1] * b[0], a[1] * b[1]]
            return (min(c), max(c))
        if op == '<<' and b[0] == b[1] and 0 <= b[0] < 64 and a[0] >= 0:
            return (a[0] << b[0], a[1] << b[0])
        if op == '>>' and b[0] == b[1] and 0 <= b[0] < 64 and a[0] >= 0:
            return (a[0] >> b[0], a[1] >> b[0])
        if op == '/' and b[0] == b[1] and b[0] > 0 and a[0] >= 0:
            return (a[0] // b[0], a[1] // b[0])
        if op == '%' and b[0] == b[1] and b[0] > 0 and a[0] >= 0:
            return (0, min(a[1], b[0] - 1))
        return None
    if k == 'cond':
        et, ee = refine_by_guard(e['c'], env)
        a = eval_range(e['then'], et) if et is not None else None
        b = eval_range(e['else'], ee) if ee is not None else None
        if et is None:
            a = b          # the condition cannot hold: only the else arm is evaluated
        if ee is None:
            b = a
        if a is None or b is None:
            return None
        return (min(a[0], b[0]), max(a[1], b[1]))
    return None


def type_range(t):
    t = t or {}
    if t.get('k') in ('int', 'enum') and t.get('size'):
        bits = 8 * t['size']
        return (-(1 << (bits - 1)), (1 << (bits - 1)) - 1) if t.get('signed') else (0, (1 << bits) - 1)
    if t.get('k') == 'bool':
        return (0, 1)
    return None


def refine_by_guard(c, env):
    """(env on the true edge, env on the false edge) of a condition `v OP constant` (or constant OP v); an environment is None when
    that edge is infeasible.  A PARAMETER that the code itself compares against a constant is believed to range over its whole type
    outside the guard: the comparison states that the other values can occur (Engler et al.: a check is a belief)."""
    c0 = strip(c)
    while isinstance(c0, dict) and c0.get('k') == 'cast':
        c0 = strip(c0['e'])
    if not (isinstance(c0, dict) and c0.get('k') == 'bin' and c0.get('op') in ('<', '<=', '>', '>=', '==', '!=')):
        return env, env
    l, r = strip(c0['lhs']), strip(c0['rhs'])
    while isinstance(l, dict) and l.get('k') == 'cast':
        l = strip(l['e'])
    while isinstance(r, dict) and r.get('k') == 'cast':
        r = strip(r['e'])
    op = c0['op']
    flip = {'<': '>', '>': '<', '<=': '>=', '>=': '<=', '==': '==', '!=': '!='}
    for (v, k_, o) in ((l, r, op), (r, l, flip[op])):
        if isinstance(v, dict) and v.get('k') == 'ref' and v.get('rk') in ('local', 'param'):
            kr = eval_range(k_, env)
            if kr is None or kr[0] != kr[1]:
                continue
            K = kr[0]
            # the whole type is the base only for a parameter (the caller chooses it); a local whose initialiser the analysis cannot
            # bound is a name for run-time data that may obey an invariant established elsewhere: it stays undecided, as the expression
            # it names would
            base = env.get(v['id']) or (type_range(v.get('t')) if v.get('rk') == 'param' else None)
            if base is None:
                continue
            lo, hi = base
            tr = {'<': (lo, min(hi, K - 1)), '<=': (lo, min(hi, K)), '>': (max(lo, K + 1), hi), '>=': (max(lo, K), hi),
                  '==': (max(lo, K), min(hi, K)), '!=': (lo, hi)}[o]
            fa = {'<': (max(lo, K), hi), '<=': (max(lo, K + 1), hi), '>': (lo, min(hi, K)), '>=': (lo, min(hi, K - 1)),
                  '==': (lo, hi), '!=': (max(lo, K), min(hi, K))}[o]
            et = dict(env)
            ee = dict(env)
            et[v['id']] = tr
            ee[v['id']] = fa
            return (et if tr[0] <= tr[1] else None), (ee if fa[0] <= fa[1] else None)
    return env, env


def array_subscripts(fn):
    """Yield (index node, extent, env, address_only) for every subscript of a constant-extent array in fn,
    with env = ranges of the enclosing constant-bounded loop variables and single-assignment constants."""
    out = []

    def const_locals(body, env):
        # locals initialised once with a range-evaluable expression and never written again
        for n in walk(body):
            if n.get('k') == 'decl':
                for v in n['vars']:
                    if v.get('init') is not None and v.get('id') is not None and (v.get('t') or {}).get('k') == 'int':
                        if v['id'] in env:
                            continue
                        if not writes_to(fn['body'], v['id']):
                            r = eval_range(v['init'], env)
                            if r is not None:
                                env[v['id']] = r

    def visit_expr(e, env, addr=False):
        if isinstance(e, list):
            for x in e:
                visit_expr(x, env)
            return
        if not isinstance(e, dict):
            return
        k = e.get('k')
        if k == 'index':
            b = e['base']
            bt = None
            bb = b
            if isinstance(bb, dict) and bb.get('k') == 'cast' and bb.get('ck') == 'ArrayToPointerDecay':
                bt = (bb['e'].get('t') or {})
            if bt and bt.get('k') == 'array' and 'n' in bt:
                out.append((e, bt['n'], dict(env), addr))
            visit_expr(e['base'], env)
            visit_expr(e['idx'], env)
            return
        if k == 'un' and e.get('op') == '&':
            visit_expr(e['e'], env, addr=True)
            return
        if k == 'sizeof':
            return
        for key in ('e', 'lhs', 'rhs', 'base', 'idx', 'this', 'args', 'c', 'then', 'else', 'inits', 'fn', 'via'):
            v = e.get(key)
            if v is not None:
                visit_expr(v, env)

    def visit_stmt(s, env):
        if s is None:
            return
        k = s.get('k')
        if k == 'compound':
            for c in s['body']:
                visit_stmt(c, env)
        elif k == 'for':
            iv = for_iv(s, env)
            visit_stmt(s.get('init'), env)
            env2 = dict(env)
            if iv:
                env2[iv[0]] = (iv[1], iv[2])
            else:
                # loop variable is not constant-bounded: make sure a stale outer range is not used
                init = s.get('init')
                if init and init.get('k') == 'decl':
                    for v in init['vars']:
                        env2.pop(v.get('id'), None)
            if iv is not None and iv[1] > iv[2]:
                return  # loop body never executes for these constants
            visit_expr(s.get('c'), env2)
            visit_expr(s.get('inc'), env2)
            visit_stmt(s.get('body'), env2)
        elif k in ('while', 'do'):
            visit_expr(s.get('c'), env)
            visit_stmt(s.get('body'), env)
        elif k == 'if':
            visit_expr(s.get('c'), env)
            et, ee = refine_by_guard(s.get('c'), env)
            # the guarded variable must not be written inside the arm for the refinement to hold there
            def arm(body, e2):
                if body is None:
                    return
                if e2 is None:
                    return          # infeasible arm
                e3 = dict(e2)
                for vid in list(e3):
                    if e3[vid] != env.get(vid) and writes_to(body, vid):
                        if vid in env:
                            e3[vid] = env[vid]
                        else:
                            e3.pop(vid)
                visit_stmt(body, e3)
            arm(s.get('then'), et)
            arm(s.get('else'), ee)
        elif k == 'constexpr_if':
            visit_stmt(s.get('taken'), env)
        elif k == 'decl':
            for v in s['vars']:
                if v.get('init') is not None:
                    visit_expr(v['init'], env)
        elif k in ('expr', 'return'):
            visit_expr(s.get('e'), env)
        elif k == 'switch':
            visit_expr(s.get('c'), env)
            visit_stmt(s.get('body'), env)
        elif k in ('case', 'default'):
            visit_stmt(s.get('sub'), env)

    env = {}
    const_locals(fn['body'], env)
    visit_stmt(fn['body'], env)
    return out
