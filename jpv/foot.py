"""R-FOOT / R-PAIR / R-LEN: buffer footprints of marshal/unmarshal, their agreement with the length formulas and
with each other (C15, C17).  Pointers derived from the byte-buffer parameter are tracked as offsets that are
affine in the slot count L; `this->signatures` is resolved to each of its two values."""
from .facts import walk, strip, loc_str, strip_tmpl
from . import pathrules as pr
from . import buildmodel as bm


class Aff:
    """c + k*L"""
    __slots__ = ('c', 'k')

    def __init__(self, c=0, k=0):
        self.c, self.k = c, k

    def __add__(self, o):
        o = o if isinstance(o, Aff) else Aff(o)
        return Aff(self.c + o.c, self.k + o.k)

    def __sub__(self, o):
        if isinstance(o, IvTerm):
            return IvTerm(o.ivid, self - o.base, -o.coef)
        o = o if isinstance(o, Aff) else Aff(o)
        return Aff(self.c - o.c, self.k - o.k)

    def scale(self, m):
        return Aff(self.c * m, self.k * m)

    def at(self, L):
        return self.c + self.k * L

    def is_const(self):
        return self.k == 0

    def __repr__(self):
        return '%d%s' % (self.c, ('%+d*L' % self.k) if self.k else '')


class Unsupported(Exception):
    pass


class Access:
    def __init__(self, start, size, count, stride, kind, node, partner=None, write=None):
        self.start, self.size, self.count, self.stride = start, size, count, stride   # count: None (single) or Aff (loop family)
        self.kind, self.node, self.partner, self.write = kind, node, partner, write

    def intervals(self, L):
        s = self.start.at(L)
        if self.count is None:
            return [(s, s + self.size)]
        n = self.count.at(L)
        return [(s + i * self.stride, s + i * self.stride + self.size) for i in range(n)]

    def __repr__(self):
        return '%s@%s+%s%s' % (self.kind, self.start, self.size, ('x%s' % self.count) if self.count is not None else '')


class Foot:
    """buffer footprint of fn with respect to its pointer parameter `pidx` (or `this` overlay when pidx == 'this')"""

    def __init__(self, prog, memo, fn, pidx, sig=None):
        self.prog, self.memo, self.fn, self.pidx, self.sig = prog, memo, fn, pidx, sig
        self.env = {}        # local id -> ('ptr', Aff, pointee type) | ('iv', lo, hi) | ('ivL',) | ('int', Aff)
        self.acc = []
        self.local_partner = {}   # local id -> canonical object-side field it mirrors
        self.loop_ctx = []   # stack of (iv id, count Aff or (lo,hi))
        self.cur_dest = None
        self.reads_sig_pred = None
        self.notes = []

    # ---- values ----
    def ptr(self, e):
        e0 = e
        if not isinstance(e, dict):
            return None
        k = e.get('k')
        t = e.get('t') or {}
        pt = (t.get('pointee') or {})
        if k == 'load':
            inner = e['e']
            if inner.get('k') == 'ref':
                if inner.get('rk') == 'param':
                    idx = [p['id'] for p in self.fn['params']].index(inner['id']) if inner['id'] in [p['id'] for p in self.fn['params']] else None
                    if idx == self.pidx:
                        return (Aff(0), pt)
                    return None
                if inner.get('rk') == 'local':
                    v = self.env.get(inner['id'])
                    if v and v[0] == 'ptr':
                        return (v[1], pt if pt else v[2])
                    return None
            return None
        if k == 'this':
            if self.pidx == 'this':
                return (Aff(0), pt)
            return None
        if k == 'cast':
            if e.get('ck') == 'ArrayToPointerDecay':
                lv = self.lval(e['e'])
                if lv is None:
                    return None
                return (lv[0], pt)
            inner = self.ptr(e['e'])
            if inner is None:
                return None
            off = inner[0]
            if e.get('ck') in ('DerivedToBase', 'UncheckedDerivedToBase'):
                off = off + e.get('baseoff', 0)
            return (off, pt)
        if k == 'un' and e.get('op') == '&':
            lv = self.lval(e['e'])
            if lv is None:
                return None
            return (lv[0], pt if pt else lv[1])
        if k == 'bin' and e.get('op') in ('+', '-'):
            for a, b in ((e['lhs'], e['rhs']), (e['rhs'], e['lhs'])):
                pa = self.ptr(a)
                if pa is not None:
                    n = self.intval(b)
                    if n is None:
                        raise Unsupported('pointer arithmetic with a run-time amount at %s' % loc_str(e))
                    sz = pa[1].get('size') or 1
                    d = n.scale(sz)
                    return ((pa[0] + d) if e['op'] == '+' else (pa[0] - d), pa[1])
            return None
        return None

    def lval(self, e):
        """(offset Aff, type) of a buffer-resident lvalue, else None"""
        if not isinstance(e, dict):
            return None
        k = e.get('k')
        t = e.get('t') or {}
        if k == 'member':
            if e.get('arrow'):
                b = self.ptr(e['base'])
            else:
                b = self.lval(e['base'])
            if b is None:
                return None
            return (b[0] + e.get('off', 0), t)
        if k == 'index':
            b = self.ptr(e['base'])
            if b is None:
                return None
            n = self.intval(e['idx'])
            if n is None:
                raise Unsupported('buffer subscript with a run-time index at %s' % loc_str(e))
            return (b[0] + n.scale(t.get('size') or 1), t)
        if k == 'un' and e.get('op') == '*':
            b = self.ptr(e['e'])
            if b is None:
                return None
            return (b[0], t)
        if k == 'cast':
            return self.lval(e['e'])
        if k == 'ref' and e.get('rk') == 'local':
            v = self.env.get(e['id'])
            if v and v[0] == 'reflv':
                return (v[1], t)
        return None

    def intval(self, e):
        """integer expression -> Aff in the symbolic induction variable marker, using 'iv' env entries"""
        e = strip(e)
        if not isinstance(e, dict):
            return None
        if 'cv' in e:
            return Aff(int(e['cv']))
        k = e.get('k')
        if k == 'ref' and e.get('rk') == 'local':
            v = self.env.get(e['id'])
            if v and v[0] == 'ivsym':
                return IvTerm(e['id'])
            if v and v[0] == 'int':
                return v[1]
            return None
        if k == 'cast':
            return self.intval(e['e'])
        if k == 'bin' and e['op'] in ('+', '-'):
            a, b = self.intval(e['lhs']), self.intval(e['rhs'])
            if a is None or b is None:
                return None
            return (a + b) if e['op'] == '+' else (a - b)
        if k == 'bin' and e['op'] == '*':
            a, b = self.intval(e['lhs']), self.intval(e['rhs'])
            if a is None or b is None:
                return None
            if isinstance(a, IvTerm) or isinstance(b, IvTerm):
                x, y = (a, b) if isinstance(a, IvTerm) else (b, a)
                if not isinstance(y, IvTerm) and y.is_const():
                    return x.scale(y.c)
                return None
            if a.is_const():
                return b.scale(a.c)
            if b.is_const():
                return a.scale(b.c)
        return None

    # ---- recording ----
    def record(self, off, size, kind, node, partner=None, write=None):
        if isinstance(off, IvTerm):
            # offset = base + stride*iv for the innermost loop
            ivid = off.ivid
            ctxs = [c for c in self.loop_ctx if c[0] == ivid]
            if not ctxs:
                raise Unsupported('induction variable used outside its loop at %s' % loc_str(node))
            _, cnt, start0 = ctxs[-1]
            if isinstance(cnt, tuple):
                lo, hi = cnt
                for i in range(lo, hi + 1):
                    self.acc.append(Access(off.base + off.coef * i, size, None, None, kind, node, partner, write))
            else:
                if off.coef <= 0:
                    raise Unsupported('descending/constant buffer walk in a run-time loop at %s' % loc_str(node))
                self.acc.append(Access(off.base + Aff(off.coef * start0, 0), size, cnt, off.coef, kind, node, partner, write))
        else:
            self.acc.append(Access(off, size, None, None, kind, node, partner, write))

    # ---- statements ----
    def run(self):
        self.stmt(self.fn['body'])
        return self.acc

    def sig_value(self, c):
        """value of a condition that only depends on the signatures flag; None if it does not"""
        c = strip(c)
        s = pr.norm_obj(pr.canon(c))
        if s in ('this.signatures',):
            return self.sig
        if c.get('k') == 'un' and c.get('op') == '!':
            v = self.sig_value(c['e'])
            return None if v is None else (not v)
        return None

    def stmt(self, s):
        if s is None:
            return
        k = s.get('k')
        if k == 'compound':
            for c in s['body']:
                self.stmt(c)
        elif k == 'decl':
            for v in s['vars']:
                init = v.get('init')
                t = v.get('t') or {}
                if init is not None:
                    self.expr(init)
                    if t.get('k') == 'ptr':
                        p = self.ptr(init)
                        if p is not None:
                            self.env[v['id']] = ('ptr', p[0], (t.get('pointee') or {}))
                    elif t.get('k') == 'ref':
                        lv = self.lval(strip(init)) if isinstance(init, dict) else None
                        if lv is not None:
                            self.env[v['id']] = ('reflv', lv[0])
                    elif t.get('k') in ('int', 'bool'):
                        n = self.intval(init)
                        if n is not None and not isinstance(n, IvTerm):
                            self.env[v['id']] = ('int', n)
        elif k == 'expr':
            self.expr(s['e'])
        elif k == 'return':
            if s.get('e') is not None:
                self.expr(s['e'])
        elif k == 'if':
            sv = self.sig_value(s['c'])
            if sv is None and self.sig is not None:
                # local bool holding the flag?
                pass
            self.expr(s['c'])
            if sv is True:
                self.stmt(s['then'])
            elif sv is False:
                self.stmt(s.get('else'))
            else:
                # unknown condition (decode verdicts, data): success/union semantics
                envs = dict(self.env)
                self.stmt(s['then'])
                env_t = self.env
                self.env = dict(envs)
                self.stmt(s.get('else'))
                # pointer locals assigned differently in the two arms -> unsupported unless equal
                for kk in set(env_t) | set(self.env):
                    a, b = env_t.get(kk), self.env.get(kk)
                    if a is not None and b is not None and a[0] == 'ptr' and b[0] == 'ptr' and (a[1].c, a[1].k) != (b[1].c, b[1].k):
                        raise Unsupported('buffer pointer depends on a run-time condition other than the signatures flag at %s' % loc_str(s))
                    if a is not None and b is None and only_returns(s.get('else')):
                        self.env[kk] = a
                    if kk not in self.env and a is not None:
                        self.env[kk] = a
        elif k == 'constexpr_if':
            self.stmt(s.get('taken'))
        elif k == 'for':
            init = s.get('init')
            self.stmt(init)
            ivid = init['vars'][0]['id'] if init and init.get('k') == 'decl' and init['vars'] else None
            c = strip(s.get('c')) if s.get('c') else None
            inc = strip(s.get('inc')) if s.get('inc') else None
            ok = ivid is not None and c and c.get('k') == 'bin' and c.get('op') in ('!=', '<') and inc and inc.get('op') == '++'
            if not ok and self._unroll_constant_loop(s, ivid, c, inc):
                return
            if not ok:
                raise Unsupported('loop shape at %s' % loc_str(s))
            start = self.intval(init['vars'][0]['init'])
            rhs = strip(c['rhs'])
            rhs_s = pr.norm_obj(pr.canon(rhs))
            if start is None or not start.is_const():
                raise Unsupported('loop start at %s' % loc_str(s))
            if 'cv' in rhs:
                cnt = (start.c, int(rhs['cv']) - 1)
                if cnt[1] - cnt[0] > 4096:
                    raise Unsupported('loop too long at %s' % loc_str(s))
            elif rhs_s == 'this.l' and start.c >= 0:
                # iv runs over [start, l): l - start iterations (none when l <= start), the first at iv = start
                cnt = Aff(-start.c, 1)
            else:
                raise Unsupported('loop bound %s at %s' % (rhs_s, loc_str(s)))
            self.env[ivid] = ('ivsym',)
            self.loop_ctx.append((ivid, cnt, start.c if not isinstance(cnt, tuple) else 0))
            self.stmt(s['body'])
            self.loop_ctx.pop()
            self.env.pop(ivid, None)
        elif k == 'while' and self._while_as_for(s) is not None:
            self.stmt(self._while_as_for(s))
        elif k in ('while', 'do', 'switch'):
            raise Unsupported('%s statement at %s' % (k, loc_str(s)))
        elif k in ('null', 'break', 'continue'):
            return
        else:
            raise Unsupported('statement %s at %s' % (k, loc_str(s)))

    def _while_as_for(self, s):
        """`while (iv OP bound) { ...; iv++; }` with iv a local holding a known constant and stepped only by the last statement of the body
        is the `for` it abbreviates: returns that `for` node, or None"""
        c = strip(s.get('c')) if s.get('c') else None
        if not c or c.get('k') != 'bin':
            return None
        l = strip(c['lhs'])
        while isinstance(l, dict) and l.get('k') in ('cast', 'load'):
            l = strip(l['e'])
        if not (isinstance(l, dict) and l.get('k') == 'ref' and l.get('rk') == 'local'):
            return None
        ivid = l['id']
        cur = self.env.get(ivid)
        if not (cur and cur[0] == 'int' and not isinstance(cur[1], IvTerm) and cur[1].is_const()):
            return None
        body = s.get('body') or {}
        stmts = list(body.get('body', [])) if body.get('k') == 'compound' else [body]
        if not stmts or stmts[-1].get('k') != 'expr':
            return None
        last = strip(stmts[-1]['e'])
        if not (last.get('k') == 'un' and last.get('op') in ('++', '--') and strip(last['e']).get('id') == ivid):
            return None
        rest = {'k': 'compound', 'l': body.get('l'), 'body': stmts[:-1]}
        for x in walk(rest):
            if isinstance(x, dict) and (x.get('k') in ('continue',) or
                                        (x.get('k') == 'assign' and strip(x['lhs']).get('id') == ivid) or
                                        (x.get('k') == 'un' and x.get('op') in ('++', '--') and strip(x['e']).get('id') == ivid)):
                return None
        init = {'k': 'decl', 'l': s.get('l'), 'vars': [{'id': ivid, 'name': l.get('name'), 't': l.get('t'),
                                                        'init': {'k': 'lit', 'cv': cur[1].c, 't': l.get('t'), 'l': s.get('l')}, 'l': s.get('l')}]}
        return {'k': 'for', 'l': s.get('l'), 'init': init, 'c': s['c'], 'inc': stmts[-1]['e'], 'body': rest}

    def _unroll_constant_loop(self, s, ivid, c, inc):
        """a `for` with a constant start, a constant bound and a unit / constant step in either direction: its body is interpreted once per
        value of the induction variable (at most 64)"""
        init = s.get('init')
        if ivid is None or not c or c.get('k') != 'bin' or c.get('op') not in ('<', '<=', '>', '>=', '!=') or not inc:
            return False
        l, r = strip(c['lhs']), strip(c['rhs'])
        while isinstance(l, dict) and l.get('k') in ('cast', 'load'):
            l = strip(l['e'])
        if not (isinstance(l, dict) and l.get('k') == 'ref' and l.get('id') == ivid and 'cv' in r):
            return False
        start = self.intval(init['vars'][0]['init']) if init['vars'][0].get('init') is not None else None
        if start is None or isinstance(start, IvTerm) or not start.is_const():
            return False
        step = None
        if inc.get('k') == 'un' and inc.get('op') in ('++', '--') and strip(inc['e']).get('id') == ivid:
            step = 1 if inc['op'] == '++' else -1
        elif inc.get('k') == 'assign' and inc.get('op') in ('+=', '-=') and strip(inc['lhs']).get('id') == ivid and 'cv' in strip(inc['rhs']):
            step = int(strip(inc['rhs'])['cv']) * (1 if inc['op'] == '+=' else -1)
        if not step:
            return False
        if any(isinstance(x, dict) and ((x.get('k') == 'assign' and strip(x['lhs']).get('id') == ivid) or
                                        (x.get('k') == 'un' and x.get('op') in ('++', '--') and strip(x['e']).get('id') == ivid) or
                                        x.get('k') in ('break', 'continue')) for x in walk(s['body'])):
            return False
        bound = int(r['cv'])
        test = {'<': lambda v: v < bound, '<=': lambda v: v <= bound, '>': lambda v: v > bound, '>=': lambda v: v >= bound, '!=': lambda v: v != bound}[c['op']]
        v = start.c
        n = 0
        while test(v):
            n += 1
            if n > 64:
                raise Unsupported('loop too long at %s' % loc_str(s))
            self.env[ivid] = ('int', Aff(v))
            self.stmt(s['body'])
            v += step
        self.env.pop(ivid, None)
        return True

    def expr(self, e):
        if not isinstance(e, dict):
            return
        k = e.get('k')
        if k == 'call':
            self.call(e)
            return
        if k == 'assign':
            self.cur_dest = pr.norm_obj(pr.canon(e['lhs'])) if pr.norm_obj(pr.canon(e['lhs'])).startswith('this.') else None
            self.expr(e['rhs'])
            self.cur_dest = None
            lv = self.lval(e['lhs'])
            if lv is not None:
                sh = [x for x in walk(e['rhs']) if x.get('k') == 'bin' and x.get('op') == '>>' and 'cv' in strip(x['rhs'])]
                src = [pr.norm_obj(pr.canon(x)) for x in walk(e['rhs']) if x.get('k') == 'member' and pr.norm_obj(pr.canon(x)).startswith('this.')]
                part = '%s shift %s' % (src[0] if src else 'value', strip(sh[0]['rhs'])['cv'] if sh else '0')
                self.record(lv[0], lv[1].get('size') or 1, 'store', e, partner=part, write=True)
            else:
                l = strip(e['lhs'])
                if l.get('k') == 'ref' and l.get('rk') == 'local' and (l.get('t') or {}).get('k') == 'ptr':
                    p = self.ptr(e['rhs'])
                    if p is not None:
                        self.env[l['id']] = ('ptr', p[0], (l['t'].get('pointee') or {}))
                self.sub_lvalue(e['lhs'])
            return
        if k == 'un' and e.get('op') in ('++', '--'):
            l = strip(e['e'])
            cur = self.env.get(l.get('id')) if l.get('k') == 'ref' and l.get('rk') == 'local' else None
            if cur is not None and cur[0] == 'ptr':
                # a cursor into the buffer stepped by one element
                esz = (cur[2] or {}).get('size') or 0
                if not esz:
                    raise Unsupported('pointer step over an incomplete type at %s' % loc_str(e))
                self.env[l['id']] = ('ptr', cur[1] + Aff(esz if e['op'] == '++' else -esz, 0), cur[2])
                return
        if k == 'bin' and e.get('op') == '<<' and 'cv' in strip(e['rhs']):
            inner = e['lhs']
            while isinstance(inner, dict) and inner.get('k') == 'cast':
                inner = inner['e']
            if isinstance(inner, dict) and inner.get('k') == 'load':
                lv = self.lval(inner['e'])
                if lv is not None:
                    self.record(lv[0], (inner.get('t') or {}).get('size') or 1, 'load', inner,
                                partner='%s shift %s' % (self.cur_dest or 'value', strip(e['rhs'])['cv']), write=False)
                    return
        if k == 'load':
            lv = self.lval(e['e'])
            if lv is not None:
                self.record(lv[0], (e.get('t') or {}).get('size') or 1, 'load', e, partner='%s shift 0' % (self.cur_dest or 'value'), write=False)
            else:
                self.sub_lvalue(e['e'])
            return
        if k == 'icall':
            for a in e.get('args', []):
                self.expr(a)
            return
        for key in ('e', 'lhs', 'rhs', 'c', 'then', 'else'):
            v = e.get(key)
            if isinstance(v, dict):
                self.expr(v)
        for key in ('args', 'inits'):
            for v in e.get(key, []) or []:
                self.expr(v)

    def sub_lvalue(self, e):
        if not isinstance(e, dict):
            return
        if e.get('k') == 'index':
            self.expr(e['idx'])
            self.expr(e['base'])
        elif e.get('k') == 'member':
            if e.get('arrow'):
                self.expr(e['base'])
            else:
                self.sub_lvalue(e['base'])
        elif e.get('k') in ('un', 'cast'):
            self.expr(e['e']) if e.get('k') == 'un' and e.get('op') == '*' else self.sub_lvalue(e['e'])

    def call(self, e):
        callee = self.prog.callee(e, self.fn)
        name = e.get('name')
        args = e.get('args', [])
        th = e.get('this')
        # object-side bookkeeping for R-PAIR
        if name in ('from_projective',) and th is not None and uncast(th).get('k') == 'ref' and args:
            self.local_partner[uncast(th)['id']] = pr.norm_obj(pr.canon(args[0]))
        if name in ('from_affine',) and th is not None and args and uncast(args[0]).get('k') == 'ref':
            self.local_partner[uncast(args[0])['id']] = pr.norm_obj(pr.canon(th))
        # buffer-resident `this`
        tptr = None
        if th is not None:
            tptr = self.ptr(th) if e.get('arrow') else self.lval(th)
        for a in args:
            if not ((a.get('t') or {}).get('k') == 'ptr'):
                self.expr(a)
        if tptr is not None:
            size = tptr[1].get('size')
            partner = None
            if args:
                a0 = uncast(args[0])
                if a0.get('k') == 'ref' and a0.get('rk') == 'local':
                    partner = ('local', a0['id'])
                else:
                    partner = pr.norm_obj(pr.canon(args[0]))
            self.record(tptr[0], size, name, e, partner=partner, write=not (callee or {}).get('const_method', False))
        # buffer-resident pointer arguments
        for i, a in enumerate(args):
            if (a.get('t') or {}).get('k') != 'ptr':
                continue
            p = self.ptr(a)
            if p is None:
                continue
            if name in ('memcpy', 'memmove', 'memset', 'memcmp') and (callee is None or 'body' not in callee):
                n = strip(args[2]).get('cv') if len(args) > 2 else None
                if n is None:
                    raise Unsupported('%s with run-time length at %s' % (name, loc_str(e)))
                other = args[1 - i] if name in ('memcpy', 'memmove') and i < 2 else None
                self.record(p[0], int(n), name, e, partner=pr.norm_obj(pr.canon(other)) if other is not None else None,
                            write=(i == 0 and name != 'memcmp'))
                continue
            if callee is None or 'body' not in callee:
                raise Unsupported('buffer pointer passed to external %s at %s' % (name, loc_str(e)))
            sub = footprint(self.prog, self.memo, callee, i, self.sig)
            partner = pr.norm_obj(pr.canon(th)) if th is not None else None
            for a2 in sub:
                if a2.count is not None:
                    raise Unsupported('nested run-time loop in %s' % callee['qn'])
                off = p[0] + a2.start if not isinstance(p[0], IvTerm) else p[0].shift(a2.start)
                self.record(off, a2.size, '%s>%s' % (name, a2.kind), e, partner=partner, write=a2.write)


class IvTerm:
    """base + coef*iv (base Aff)"""

    def __init__(self, ivid, base=None, coef=1):
        self.ivid, self.base, self.coef = ivid, base or Aff(0), coef

    def __add__(self, o):
        if isinstance(o, IvTerm):
            raise Unsupported('two induction variables in one offset')
        return IvTerm(self.ivid, self.base + o, self.coef)

    __radd__ = __add__

    def __sub__(self, o):
        return IvTerm(self.ivid, self.base - o, self.coef)

    def scale(self, m):
        return IvTerm(self.ivid, self.base.scale(m), self.coef * m)

    def shift(self, a):
        return IvTerm(self.ivid, self.base + a, self.coef)

    def is_const(self):
        return False


# Aff + IvTerm support
_aff_add = Aff.__add__


def _aff_add2(self, o):
    if isinstance(o, IvTerm):
        return o + self
    return _aff_add(self, o)


Aff.__add__ = _aff_add2


def uncast(e):
    e = strip(e)
    while isinstance(e, dict) and e.get('k') in ('cast', 'load'):
        e = strip(e['e'])
    return e if isinstance(e, dict) else {}


def only_returns(s):
    if s is None:
        return False
    if s.get('k') == 'return':
        return True
    if s.get('k') == 'compound':
        return bool(s['body']) and only_returns(s['body'][-1])
    return False


def footprint(prog, memo, fn, pidx, sig):
    key = (fn['key'], pidx, sig)
    if key in memo:
        return memo[key]
    memo[key] = []
    f = Foot(prog, memo, fn, pidx, sig)
    acc = f.run()
    memo[key] = acc
    memo[(key, 'walker')] = f
    return acc


def tiling(accs, L):
    """merge the byte intervals of all accesses at slot count L; returns (sorted merged intervals, overlaps of writes)"""
    iv = []
    for a in accs:
        for (s, e) in a.intervals(L):
            if e > s:
                iv.append((s, e, a))
    iv.sort(key=lambda x: (x[0], x[1]))
    merged = []
    for (s, e, a) in iv:
        if merged and s <= merged[-1][1]:
            merged[-1] = (merged[-1][0], max(merged[-1][1], e))
        else:
            merged.append((s, e))
    return merged, iv
