"""R-SCHEME: per-path algebraic effects of the WKD-IBE / LQ-IBE routines against the scheme's definition (C11-C14, C16).

For every routine the CFG is cut at the loop heads; every path segment (entry -> loop head, one loop iteration, loop exit ->
return) is interpreted in the discrete-log domain (jpv/grpdom.py) and its effect table is compared with the effect the
definition of the scheme prescribes for the segment's *category* (which tests succeeded on it: attribute present for slot
i, hidden, slot free in the parent, ...).  The tables below are written from the construction (Abdalla-Kiltz-Neven WKD-IBE
as used by JEDI: key = (g2^alpha * (g3 * prod h_i^id_i)^r, g^r, {h_j^r : j free}); delegation multiplies in b_i^id_i and
re-randomises every component with a fresh t) and from the LQ-IBE definition, NOT from the code; together with the cursor
invariants of R-CURSOR they are a Hoare-style argument that holds for every number of slots and every attribute list:
initialisation + per-iteration effect + exit condition + finalisation.  A cross-check at the bottom composes the tables
symbolically (decrypt o encrypt, verify o sign) so that a mistake in a table shows up as a failed identity."""
from .facts import walk, strip, loc_str, strip_tmpl
from .cfg import CFG
from . import grpdom, bls
from .grpdom import Elt, pair, norm
from .asmsem import ZPoly
from . import buildmodel as bm

WK = 'embedded_pairing::wkdibe::'
LQ = 'embedded_pairing::lqibe::'


def G1(l):
    return Elt.base('G1', l)


def G2(l):
    return Elt.base('G2', l)


def GT(l):
    return Elt.base('GT', l)


def S(l):
    return ZPoly.var(l)


def C(n):
    return ZPoly.const(n)


Z1, Z2, ZT = Elt('G1'), Elt('G2'), Elt('GT')


# ---------------------------------------------------------------- condition matchers
def order(conds, a, b):
    """what the comparisons of a with b on the path (any of == != < <= > >=, either operand order) leave possible: a subset of
    {'lt', 'eq', 'gt'} (all three when the two are not compared)"""
    poss = {'lt', 'eq', 'gt'}
    sets = {'==': {'eq'}, '!=': {'lt', 'gt'}, '<': {'lt'}, '<=': {'lt', 'eq'}, '>': {'gt'}, '>=': {'gt', 'eq'}}
    flip = {'lt': 'gt', 'gt': 'lt', 'eq': 'eq'}
    for (k, lab) in conds:
        if k[0] != 'cmp' or k[1] not in sets:
            continue
        if (k[2], k[3]) == (a, b):
            st = set(sets[k[1]])
        elif (k[2], k[3]) == (b, a):
            st = {flip[x] for x in sets[k[1]]}
        else:
            continue
        poss &= st if lab else ({'lt', 'eq', 'gt'} - st)
    return poss


def eq(conds, a, b):
    """outcome of the comparison a == b on the path (from the equality / ordering tests in either operand order), or None"""
    p = order(conds, a, b)
    if p == {'eq'}:
        return True
    if 'eq' not in p:
        return False
    return None


def lt(conds, a, b):
    p = order(conds, a, b)
    if p == {'lt'}:
        return True
    if 'lt' not in p:
        return False
    return None


def truth(conds, a):
    for (k, lab) in conds:
        if k[0] == 'truth' and k[1] == a:
            return lab
        if k[0] == 'cmp' and k[1] in ('!=', '==') and {k[2], k[3]} == {a, '0'}:
            return lab if k[1] == '!=' else (not lab)
    return None


def callres(conds, name):
    for (k, lab) in conds:
        if k[0] == 'call' and k[1] == name:
            return lab
    return None


def known(conds, used):
    """conditions of the path that no matcher of the specification consumed"""
    return [k for (k, lab) in conds if k not in used]


class Mismatch(Exception):
    pass


class Infeasible(Exception):
    pass


# ---------------------------------------------------------------- specifications
# Each spec: dict(fn=qualified name, outputs=[prefixes], state=[locals carried between segments], scratch=[locals], links=[(a, b)],
#                 segs=callable(frm, to, conds) -> {location: value} )
# The callable raises Infeasible for contradictory categories and Mismatch(msg) for categories the scheme does not allow.

def _slot_cat(c, parent=None, x_in_loop_cond=False):
    """category of one iteration of a slot loop: (match, hidden, parent_free, omit_all)"""
    k_in = not eq(c, 'L:k', 'attrs.length') if eq(c, 'L:k', 'attrs.length') is not None else None
    k_match = eq(c, 'attrs.attrs[L:k].idx', 'L:i')
    if k_in is False:
        match = False
    elif k_match is None:
        raise Mismatch('the iteration does not test whether the current attribute belongs to slot i (attrs[k].idx == i)')
    elif k_in is None:
        raise Mismatch('attrs.attrs[k] is read without testing k != attrs.length')
    else:
        match = k_match
    hidden = truth(c, 'attrs.attrs[L:k].omitFromKeys')
    pf = None
    if parent is not None:
        x_in = eq(c, 'L:x', parent + '.l')
        x_in = (not x_in) if x_in is not None else None
        x_match = eq(c, parent + '.b[L:x].idx', 'L:i')
        if x_in is False:
            pf = False
        elif x_match is None:
            pf = None
        elif x_in is None and not x_in_loop_cond:
            raise Mismatch('%s.b[x] is read without testing x != %s.l' % (parent, parent))
        else:
            pf = x_match
    return match, hidden, pf, truth(c, 'attrs.omitAllFromKeysUnlessPresent')


def spec_keygen(delegable):
    r = S('L:r')

    def segs(frm, to, c):
        if (frm, to) == ('entry', 'L0'):
            e = {'sk.a0': G1('params.g3'), 'L:j': C(0), 'L:k': C(0), 'L:i': C(0)}
            if delegable:
                e.update({'L:r': S('rand#1'), 'L:rx': S('rand#1')})
            return e
        if (frm, to) == ('L0', 'L0'):
            if eq(c, 'L:i', 'params.l') is not False:
                raise Mismatch('an iteration runs without i != params.l')
            match, hidden, _, omit_all = _slot_cat(c)
            e = {'L:i': S('L:i') + 1}
            if match:
                if hidden is None:
                    raise Mismatch('a matched attribute is used without looking at omitFromKeys')
                if not hidden:
                    e['sk.a0'] = G1('sk.a0') + G1('params.h[L:i]').scale(S('attrs.attrs[L:k].id'))
                e['L:k'] = S('L:k') + 1
            else:
                if omit_all is None:
                    raise Mismatch('a slot without attribute is handled without looking at omitAllFromKeysUnlessPresent')
                if not omit_all:
                    e['sk.b[L:j].idx'] = S('L:i')
                    e['sk.b[L:j].hexp'] = G1('params.h[L:i]').scale(r) if delegable else G1('params.h[L:i]')
                    e['L:j'] = S('L:j') + 1
            return e
        if (frm, to) == ('L0', 'exit'):
            if eq(c, 'L:i', 'params.l') is not True:
                raise Mismatch('the slot loop can end before i == params.l: attributes for the remaining slots are not bound into a0')
            sig = truth(c, 'params.signatures')
            if sig is None:
                raise Mismatch('bsig is produced without looking at params.signatures')
            e = {'sk.l': S('L:j'), 'sk.signatures': S('params.signatures')}
            if delegable:
                e['sk.bsig'] = G1('params.hsig').scale(r) if sig else Z1
                e['sk.a0'] = G1('sk.a0').scale(r) + G1('msk.g2alpha')
                e['sk.a1'] = G2('params.g').scale(r)
            else:
                e['sk.bsig'] = G1('params.hsig') if sig else Z1
                e['sk.a0'] = G1('sk.a0') + G1('msk.g2alpha')
                e['sk.a1'] = G2('params.g')
            return e
        raise Mismatch('unexpected control flow %s -> %s' % (frm, to))
    return dict(fn=WK + ('keygen' if delegable else 'nondelegable_keygen'), outputs=['sk.'], state=['L:j', 'L:k', 'L:i', 'L:r', 'L:rx'],
                scratch=['L:temp'], links=[('L:rx', 'L:r')], segs=segs)


def spec_qualifykey():
    t = S('L:t')

    def segs(frm, to, c):
        if (frm, to) == ('entry', 'L0'):
            return {'L:t': S('rand#1'), 'L:tx': S('rand#1'), 'L:product': G1('params.g3'), 'qualified.a0': G1('sk.a0'),
                    'L:j': C(0), 'L:k': C(0), 'L:x': C(0), 'L:i': C(0)}
        if (frm, to) == ('L0', 'L0'):
            if eq(c, 'L:i', 'params.l') is not False:
                raise Mismatch('an iteration runs without i != params.l')
            match, hidden, pf, omit_all = _slot_cat(c, 'sk')
            e = {'L:i': S('L:i') + 1}
            idk = S('attrs.attrs[L:k].id')
            if match:
                if hidden is None:
                    raise Mismatch('a matched attribute is used without looking at omitFromKeys')
                if pf is None:
                    raise Mismatch('a matched attribute is handled without testing whether slot i is free in the parent key (its component must be consumed)')
                if not hidden:
                    e['L:product'] = G1('L:product') + G1('params.h[L:i]').scale(idk)
                    if pf:
                        e['qualified.a0'] = G1('qualified.a0') + G1('sk.b[L:x].hexp').scale(idk)
                if pf:
                    e['L:x'] = S('L:x') + 1
                e['L:k'] = S('L:k') + 1
            else:
                if pf is None:
                    raise Mismatch('a slot without attribute is handled without testing whether it is free in the parent key')
                if pf:
                    if omit_all is None:
                        raise Mismatch('a free slot is handled without looking at omitAllFromKeysUnlessPresent')
                    if not omit_all:
                        e['qualified.b[L:j].idx'] = S('L:i')
                        e['qualified.b[L:j].hexp'] = G1('params.h[L:i]').scale(t) + G1('sk.b[L:x].hexp')
                        e['L:j'] = S('L:j') + 1
                    e['L:x'] = S('L:x') + 1
            return e
        if (frm, to) == ('L0', 'exit'):
            if eq(c, 'L:i', 'params.l') is not True:
                raise Mismatch('the slot loop can end before i == params.l: attributes above the parent\'s last free slot are left out of the '
                               're-randomisation base g3 * prod h_i^id_i, so a0 is re-randomised against the wrong base')
            sig = truth(c, 'sk.signatures')
            if sig is None:
                raise Mismatch('bsig is produced without looking at sk.signatures')
            return {'qualified.l': S('L:j'), 'qualified.signatures': S('sk.signatures'),
                    'qualified.bsig': (G1('params.hsig').scale(t) + G1('sk.bsig')) if sig else Z1,
                    'qualified.a0': G1('qualified.a0') + G1('L:product').scale(t),
                    'qualified.a1': G2('params.g').scale(t) + G2('sk.a1')}
        raise Mismatch('unexpected control flow %s -> %s' % (frm, to))
    return dict(fn=WK + 'qualifykey', outputs=['qualified.'], state=['L:j', 'L:k', 'L:x', 'L:i', 'L:t', 'L:tx'], scratch=['L:temp', 'L:product'],
                keep=['L:product'], links=[('L:tx', 'L:t')], segs=segs)


def spec_nondelegable_qualifykey():
    def segs(frm, to, c):
        if (frm, to) == ('entry', 'L0'):
            return {'qualified.a0': G1('sk.a0'), 'L:j': C(0), 'L:k': C(0), 'L:x': C(0), 'L:i': C(0)}
        if (frm, to) == ('L0', 'L0'):
            if eq(c, 'L:i', 'params.l') is not False:
                raise Mismatch('an iteration runs without i != params.l')
            if eq(c, 'L:x', 'sk.l') is not False:
                raise Mismatch('sk.b[x] is read without x != sk.l')
            match, hidden, pf, omit_all = _slot_cat(c, 'sk', x_in_loop_cond=True)
            e = {'L:i': S('L:i') + 1}
            if pf is None:
                raise Mismatch('the iteration does not test whether slot i is free in the parent key')
            if match:
                if pf:
                    if hidden is None:
                        raise Mismatch('a matched attribute is used without looking at omitFromKeys')
                    if not hidden:
                        e['qualified.a0'] = G1('qualified.a0') + G1('sk.b[L:x].hexp').scale(S('attrs.attrs[L:k].id'))
                    e['L:x'] = S('L:x') + 1
                e['L:k'] = S('L:k') + 1
            elif pf:
                if omit_all is None:
                    raise Mismatch('a free slot is handled without looking at omitAllFromKeysUnlessPresent')
                if not omit_all:
                    e['qualified.b[L:j].idx'] = S('L:i')
                    e['qualified.b[L:j].hexp'] = G1('sk.b[L:x].hexp')
                    e['L:j'] = S('L:j') + 1
                e['L:x'] = S('L:x') + 1
            return e
        if (frm, to) == ('L0', 'exit'):
            # ending when the parent has no free slot left is fine: nothing below contributes without one
            if eq(c, 'L:i', 'params.l') is not True and eq(c, 'L:x', 'sk.l') is not True:
                raise Mismatch('the slot loop can end although slots and parent components remain')
            sig = truth(c, 'sk.signatures')
            if sig is None:
                raise Mismatch('bsig is produced without looking at sk.signatures')
            return {'qualified.l': S('L:j'), 'qualified.signatures': S('sk.signatures'), 'qualified.bsig': G1('sk.bsig') if sig else Z1,
                    'qualified.a1': G2('sk.a1')}
        raise Mismatch('unexpected control flow %s -> %s' % (frm, to))
    return dict(fn=WK + 'nondelegable_qualifykey', outputs=['qualified.'], state=['L:j', 'L:k', 'L:x', 'L:i'], scratch=['L:temp'], links=[], segs=segs)


def spec_precompute():
    def segs(frm, to, c):
        if (frm, to) == ('entry', 'L0'):
            return {'precomputed.prodexp': G1('params.g3'), 'L:i': C(0)}
        if (frm, to) == ('L0', 'L0'):
            if eq(c, 'L:i', 'attrs.length') is not False:
                raise Mismatch('an iteration of precompute runs without i != attrs.length')
            return {'L:i': S('L:i') + 1,
                    'precomputed.prodexp': G1('precomputed.prodexp') + G1('params.h[attrs.attrs[L:i].idx]').scale(S('attrs.attrs[L:i].id'))}
        if (frm, to) == ('L0', 'exit'):
            if eq(c, 'L:i', 'attrs.length') is not True:
                raise Mismatch('precompute can stop before the last attribute')
            return {}
        raise Mismatch('unexpected control flow %s -> %s' % (frm, to))
    return dict(fn=WK + 'precompute', outputs=['precomputed.'], state=['L:i'], scratch=['L:temp'], links=[], segs=segs)


def spec_adjust_precomputed():
    fi, tj = 'from.attrs[L:i]', 'to.attrs[L:j]'
    pe = 'precomputed.prodexp'

    def sub_from():
        return G1(pe) - G1('params.h[%s.idx]' % fi).scale(S(fi + '.id'))

    def add_to():
        return G1(pe) + G1('params.h[%s.idx]' % tj).scale(S(tj + '.id'))

    def segs(frm, to, c):
        if frm == 'entry':
            if to not in ('L0', 'L1', 'L2', 'exit'):
                raise Mismatch('unexpected control flow')
            return {'L:i': C(0), 'L:j': C(0)}
        if (frm, to) == ('L0', 'L0'):
            if eq(c, 'L:i', 'from.length') is not False or eq(c, 'L:j', 'to.length') is not False:
                raise Mismatch('the merge step runs although one list is exhausted')
            same = eq(c, fi + '.idx', tj + '.idx')
            if same is None:
                raise Mismatch('the merge step does not compare the two current indices')
            if same:
                ide = callres(c, 'equal')
                e = {'L:i': S('L:i') + 1, 'L:j': S('L:j') + 1}
                if ide is None or ide is False:
                    e[pe] = G1(pe) + G1('params.h[%s.idx]' % tj).scale(S(tj + '.id') - S(fi + '.id'))
                return e
            less = lt(c, fi + '.idx', tj + '.idx')
            if less is None:
                raise Mismatch('the merge step does not order the two current indices')
            if less:
                return {'L:i': S('L:i') + 1, pe: sub_from()}
            return {'L:j': S('L:j') + 1, pe: add_to()}
        if frm == 'L0' and to in ('L1', 'L2', 'exit'):
            return {}
        if (frm, to) == ('L1', 'L1'):
            if eq(c, 'L:i', 'from.length') is not False:
                raise Mismatch('drain of `from` runs past its end')
            return {'L:i': S('L:i') + 1, pe: sub_from()}
        if frm == 'L1' and to in ('L2', 'exit'):
            if eq(c, 'L:i', 'from.length') is not True:
                raise Mismatch('the drain loop of `from` can stop early')
            return {}
        if (frm, to) == ('L2', 'L2'):
            if eq(c, 'L:j', 'to.length') is not False:
                raise Mismatch('drain of `to` runs past its end')
            return {'L:j': S('L:j') + 1, pe: add_to()}
        if (frm, to) == ('L2', 'exit'):
            if eq(c, 'L:j', 'to.length') is not True:
                raise Mismatch('the drain loop of `to` can stop early')
            return {}
        raise Mismatch('unexpected control flow %s -> %s' % (frm, to))
    return dict(fn=WK + 'adjust_precomputed', outputs=['precomputed.'], state=['L:i', 'L:j'], scratch=['L:temp', 'L:diff'], links=[], segs=segs)


def spec_adjust_nondelegable():
    pb = 'parent.b[L:i]'

    def segs(frm, to, c):
        # cut points: L0 = for over the parent's free slots, L1 / L2 = the two skip loops
        if (frm, to) == ('entry', 'L0'):
            return {'L:j': C(0), 'L:k': C(0), 'L:x': C(0), 'L:i': C(0)}
        if (frm, to) == ('L0', 'L1'):
            if eq(c, 'L:i', 'parent.l') is not False:
                raise Mismatch('an iteration runs without i != parent.l')
            return {'L:idx': S(pb + '.idx')}
        if (frm, to) == ('L1', 'L1'):
            return {'L:j': S('L:j') + 1}
        if (frm, to) == ('L1', 'L2'):
            return {}
        if (frm, to) == ('L2', 'L2'):
            return {'L:k': S('L:k') + 1}
        if (frm, to) == ('L2', 'L0'):
            idx = 'L:idx'
            sf = truth(c, '(L:j!=from.length&&from.attrs[L:j].idx==%s)' % idx)
            at = truth(c, '(L:k!=to.length&&to.attrs[L:k].idx==%s)' % idx)
            e = {'L:i': S('L:i') + 1}
            # the two flags are defined by the statements of the segment; their definitions are checked separately (flagdefs)
            any_ = None
            for (k, lab) in c:
                if k[0] == 'cmp' and k[1] == '!=' and {k[2], k[3]} in ({'L:j', 'from.length'}, {'L:k', 'to.length'}):
                    any_ = True if lab else any_
            # `if (j != from.length || k != to.length)` decomposes into two tests; both false means both lists are exhausted
            jf, kt = eq(c, 'L:j', 'from.length'), eq(c, 'L:k', 'to.length')
            exhausted = (jf is True and kt is True)
            fj, tk = 'from.attrs[L:j]', 'to.attrs[L:k]'
            if exhausted:
                if at is True:
                    raise Infeasible()
                sf_eff, at_eff = False, False
            else:
                if at is None:
                    raise Mismatch('the slot is handed on or dropped without looking at whether `to` binds it')
                sf_eff, at_eff = sf, at
                if at_eff and sf_eff is None:
                    raise Mismatch('`to` binds the slot but whether `from` bound it is not looked at')
                if not at_eff and sf_eff is None:
                    sf_eff = False if sf is None else sf
            if sf_eff and at_eff:
                ide = callres(c, 'equal')
                if ide is None or ide is False:
                    e['sk.a0'] = G1('sk.a0') + G1(pb + '.hexp').scale(S(tk + '.id') - S(fj + '.id'))
            elif sf_eff:
                e['sk.a0'] = G1('sk.a0') - G1(pb + '.hexp').scale(S(fj + '.id'))
            elif at_eff:
                e['sk.a0'] = G1('sk.a0') + G1(pb + '.hexp').scale(S(tk + '.id'))
            if not at_eff:
                # a slot that `to` does not bind stays free: its component is handed on
                e['sk.b[L:x].idx'] = S(pb + '.idx')
                e['sk.b[L:x].hexp'] = G1(pb + '.hexp')
                e['L:x'] = S('L:x') + 1
            return e
        if (frm, to) == ('L0', 'exit'):
            if eq(c, 'L:i', 'parent.l') is not True:
                raise Mismatch('the loop over the parent\'s free slots can stop early')
            return {'sk.l': S('L:x')}
        raise Mismatch('unexpected control flow %s -> %s' % (frm, to))
    return dict(fn=WK + 'adjust_nondelegable', outputs=['sk.'], state=['L:j', 'L:k', 'L:x', 'L:i'], scratch=['L:temp', 'L:diff', 'L:idx', 'L:sub_from', 'L:add_to'],
                links=[], segs=segs, flagdefs={'L:sub_from': ('L:j', 'from'), 'L:add_to': ('L:k', 'to')})


def spec_resamplekey():
    t = S('L:t')

    def segs(frm, to, c):
        if frm == 'entry':
            sig = truth(c, 'sk.signatures')
            sup = truth(c, 'supportFurtherQualification')
            if sig is None or sup is None:
                raise Mismatch('resamplekey does not look at sk.signatures / supportFurtherQualification')
            e = {'L:t': S('rand#1'), 'L:tx': S('rand#1'),
                 'resampled.a0': G1('sk.a0') + G1('precomputed.prodexp').scale(S('rand#1')),
                 'resampled.a1': G2('sk.a1') + G2('params.g').scale(S('rand#1')),
                 'resampled.signatures': S('sk.signatures'),
                 'resampled.bsig': (G1('sk.bsig') + G1('params.hsig').scale(S('rand#1'))) if sig else Z1}
            if sup:
                if to != 'L0':
                    raise Mismatch('further qualification requested but the free-slot components are not re-randomised')
                e['L:i'] = C(0)
            else:
                if to != 'exit':
                    raise Mismatch('unexpected loop')
                e['resampled.l'] = C(0)
            return e
        if (frm, to) == ('L0', 'L0'):
            if eq(c, 'L:i', 'sk.l') is not False:
                raise Mismatch('re-randomisation iteration without i != sk.l')
            return {'L:i': S('L:i') + 1, 'resampled.b[L:i].idx': S('sk.b[L:i].idx'),
                    'resampled.b[L:i].hexp': G1('sk.b[L:i].hexp') + G1('params.h[sk.b[L:i].idx]').scale(t)}
        if (frm, to) == ('L0', 'exit'):
            if eq(c, 'L:i', 'sk.l') is not True:
                raise Mismatch('the re-randomisation loop can stop early')
            return {'resampled.l': S('sk.l')}
        raise Mismatch('unexpected control flow %s -> %s' % (frm, to))
    return dict(fn=WK + 'resamplekey', outputs=['resampled.'], state=['L:i', 'L:t', 'L:tx'], scratch=['L:temp', 'L:temp2'], links=[('L:tx', 'L:t')], segs=segs)


def spec_setup():
    def segs(frm, to, c):
        if (frm, to) == ('entry', 'L0'):
            sig = truth(c, 'signatures')
            if sig is None:
                raise Mismatch('setup does not look at `signatures`')
            a = S('rand#1')
            e = {'L:alphax': a, 'L:alpha': a, 'params.g': G2('gen#2'), 'params.g1': G2('gen#2').scale(a), 'params.g2': G1('gen#3'),
                 'msk.g2alpha': G1('gen#3').scale(a), 'params.g3': G1('gen#4'), 'params.pairing': pair(G1('gen#3'), G2('gen#2').scale(a)),
                 'params.l': S('l'), 'params.signatures': S('signatures'), 'L:i': C(0),
                 'L:g2affine': G1('gen#3'), 'L:g1affine': G2('gen#2').scale(a)}
            e['params.hsig'] = G1('gen#5') if sig else Z1
            return e
        if (frm, to) == ('L0', 'L0'):
            # every h[i] is an independent fresh generator
            return {'L:i': S('L:i') + 1, 'params.h[L:i]': ('fresh', 'G1')}
        if (frm, to) == ('L0', 'exit'):
            if eq(c, 'L:i', 'l') is not True:
                raise Mismatch('setup can stop before h[l-1]')
            return {}
        raise Mismatch('unexpected control flow %s -> %s' % (frm, to))
    return dict(fn=WK + 'setup', outputs=['params.', 'msk.'], state=['L:i'], scratch=['L:alphax', 'L:alpha', 'L:g2affine', 'L:g1affine'], links=[], segs=segs)


def spec_encrypt_precomputed():
    def segs(frm, to, c):
        s = S('rand#1')
        return {'L:sx': s, 'L:s': s, 'ciphertext.a': GT('params.pairing').scale(s) + GT('message'), 'ciphertext.b': G2('params.g').scale(s),
                'ciphertext.c': G1('precomputed.prodexp').scale(s)}
    return dict(fn=WK + 'encrypt_precomputed', outputs=['ciphertext.'], state=[], scratch=['L:sx', 'L:s'], links=[], segs=segs)


def spec_decrypt():
    def segs(frm, to, c):
        return {'message': pair(G1('ciphertext.c'), G2('sk.a1')) - pair(G1('sk.a0'), G2('ciphertext.b')) + GT('ciphertext.a')}
    return dict(fn=WK + 'decrypt', outputs=['message'], state=[], scratch=['L:denominator', 'L:caffine', 'L:a1affine', 'L:a0affine', 'L:baffine', 'L:pairs'], links=[], segs=segs)


def spec_decrypt_master():
    def segs(frm, to, c):
        return {'message': GT('ciphertext.a') - pair(G1('msk.g2alpha'), G2('ciphertext.b'))}
    return dict(fn=WK + 'decrypt_master', outputs=['message'], state=[], scratch=['L:g2alphaaffine', 'L:baffine'], links=[], segs=segs)


def spec_sign_precomputed():
    m = S('message')

    def segs(frm, to, c):
        if frm == 'entry':
            s = S('rand#1')
            e = {'L:sx': s, 'L:s': s,
                 'signature.a0': G1('sk.bsig').scale(m) + G1('sk.a0') + (G1('params.hsig').scale(m) + G1('precomputed.prodexp')).scale(s),
                 'signature.a1': G2('params.g').scale(s) + G2('sk.a1')}
            given = None
            for (k, lab) in c:
                if k[0] == 'cmp' and 'nullptr' in (k[2], k[3]):
                    given = lab if k[1] == '!=' else (not lab)
            if given is None:
                raise Mismatch('sign does not test whether an attribute list for the free slots was given')
            if given:
                if to != 'L0':
                    raise Mismatch('attribute list given but the free slots are not filled')
                e.update({'L:k': C(0), 'L:i': C(0)})
            elif to != 'exit':
                raise Mismatch('no attribute list given but the fill loop runs')
            return e
        if (frm, to) == ('L0', 'L1'):
            if eq(c, 'L:i', 'sk.l') is not False:
                raise Mismatch('fill iteration without i != sk.l')
            return {}
        if (frm, to) == ('L1', 'L1'):
            # the skip loop passes only attributes strictly below the free slot (an equal one names this slot and must be consumed by the fill)
            pairs = [(k_[2], k_[3]) for (k_, lab_) in c if k_[0] == 'cmp' and k_[1] in ('<', '<=', '>', '>=', '==', '!=') and
                     (('attrs.attrs[L:k].idx' in (k_[2], k_[3])))]
            if not pairs:
                raise Mismatch('the skip loop does not compare the current attribute with the free slot')
            a_, b_ = pairs[-1]
            other = b_ if a_ == 'attrs.attrs[L:k].idx' else a_
            if order(c, 'attrs.attrs[L:k].idx', other) != {'lt'}:
                raise Mismatch('the skip loop passes an attribute that is not strictly below the free slot (%s): a slot named by the list is left unfilled'
                               % sorted(order(c, 'attrs.attrs[L:k].idx', other)))
            return {'L:k': S('L:k') + 1}
        if frm == 'L1' and to in ('L0', 'exit'):
            done = eq(c, 'L:k', 'ptr:attrs.length') if eq(c, 'L:k', 'ptr:attrs.length') is not None else eq(c, 'L:k', 'attrs.length')
            hit = eq(c, 'sk.b[L:i].idx', 'attrs.attrs[L:k].idx')
            if to == 'exit':
                if done is not True:
                    raise Mismatch('the fill loop can be left although free slots and attributes remain: a free slot named by the list is not filled')
                return {}
            e = {'L:i': S('L:i') + 1}
            if hit is None and done is True:
                hit = False         # no attribute is left: there is nothing to compare the slot with, and nothing may be added
            if hit is None:
                raise Mismatch('the fill step does not compare the free slot with the current attribute')
            if hit:
                e['signature.a0'] = G1('signature.a0') + G1('sk.b[L:i].hexp').scale(S('attrs.attrs[L:k].id'))
                e['L:k'] = S('L:k') + 1
            return e
        if (frm, to) == ('L0', 'exit'):
            # exit condition of the Hoare argument: every free slot was visited, or no attribute is left that could name one
            done = eq(c, 'L:k', 'ptr:attrs.length') if eq(c, 'L:k', 'ptr:attrs.length') is not None else eq(c, 'L:k', 'attrs.length')
            if eq(c, 'L:i', 'sk.l') is not True and done is not True:
                raise Mismatch('the fill loop can end before i == sk.l while attributes remain: a free slot named by the list is not filled '
                               '(b_i^id_i missing from a0, the signature does not verify)')
            return {}
        raise Mismatch('unexpected control flow %s -> %s' % (frm, to))
    return dict(fn=WK + 'sign_precomputed', outputs=['signature.'], state=['L:k', 'L:i'], scratch=['L:sx', 'L:s', 'L:prodexp'], links=[], segs=segs)


def spec_verify_precomputed():
    def segs(frm, to, c):
        lhs = pair(G1('signature.a0'), G2('params.g')) - pair(G1('params.hsig').scale(S('message')) + G1('precomputed.prodexp'), G2('signature.a1'))
        return {'@return': ('equal', lhs, GT('params.pairing'))}
    return dict(fn=WK + 'verify_precomputed', outputs=[], state=[], scratch=['L:a0affine', 'L:gaffine', 'L:prodexpaffine', 'L:a1affine', 'L:prodexp', 'L:ratio', 'L:pairs'],
                links=[], segs=segs)


# ---- LQ-IBE
def spec_lq_setup():
    def segs(frm, to, c):
        s = S('rand#1')
        return {'L:sx': s, 'msk.s': s, 'params.p': G2('gen#2'), 'params.sp': G2('gen#2').scale(s)}
    return dict(fn=LQ + 'setup', outputs=['params.', 'msk.'], state=[], scratch=['L:sx'], links=[], segs=segs)


def spec_lq_keygen():
    def segs(frm, to, c):
        return {'sk.sq': G1('id.q').scale(S('msk.s'))}
    return dict(fn=LQ + 'keygen', outputs=['sk.'], state=[], scratch=['L:sq'], links=[], segs=segs)


def spec_lq_encrypt():
    def segs(frm, to, c):
        r = S('rand#1')
        shared = pair(G1('id.q'), G2('params.sp').scale(r))
        return {'ciphertext.rp': G2('params.p').scale(r), 'L:buffer.q': ('enc', G1('id.q')), 'L:buffer.rp': ('enc', G2('params.p').scale(r)),
                'L:buffer.pairing': ('bytes', shared), '@callback': ('symmetric', 'symmetric_length', 'L:buffer')}
    return dict(fn=LQ + 'encrypt', outputs=['ciphertext.', 'L:buffer'], state=[], scratch=['L:rx', 'L:r', 'L:rp', 'L:rsp', 'L:rspaffine', 'L:result'], links=[], segs=segs)


def spec_lq_decrypt():
    def segs(frm, to, c):
        shared = pair(G1('sk.sq'), G2('ciphertext.rp'))
        return {'L:buffer.q': ('enc', G1('id.q')), 'L:buffer.rp': ('enc', G2('ciphertext.rp')), 'L:buffer.pairing': ('bytes', shared),
                '@callback': ('symmetric', 'symmetric_length', 'L:buffer')}
    return dict(fn=LQ + 'decrypt', outputs=['L:buffer'], state=[], scratch=['L:result'], links=[], segs=segs)


def all_specs():
    return [spec_setup(), spec_keygen(True), spec_keygen(False), spec_qualifykey(), spec_nondelegable_qualifykey(), spec_adjust_nondelegable(),
            spec_precompute(), spec_adjust_precomputed(), spec_resamplekey(), spec_encrypt_precomputed(), spec_decrypt(), spec_decrypt_master(),
            spec_sign_precomputed(), spec_verify_precomputed(), spec_lq_setup(), spec_lq_keygen(), spec_lq_encrypt(), spec_lq_decrypt()]


# ---------------------------------------------------------------- comparison
def _subst_links(v, links):
    if not links:
        return v
    m = {a: ZPoly.var(b) for a, b in links}
    if isinstance(v, ZPoly):
        return norm(v.subs(m))
    if isinstance(v, Elt):
        return Elt(v.g, {b: c.subs(m) for b, c in v.t.items()})
    if isinstance(v, tuple):
        return tuple(_subst_links(x, links) for x in v)
    return v


def _rename_fresh(effects):
    """fresh symbols are numbered per segment in creation order; compare up to that numbering (already deterministic)"""
    return effects


def same(a, b):
    if isinstance(a, ZPoly) and isinstance(b, ZPoly):
        return norm(a) == norm(b)
    if isinstance(a, tuple) and isinstance(b, tuple) and len(a) == len(b):
        return all(same(x, y) for x, y in zip(a, b))
    return a == b


# number of loops of each routine the segment tables below describe
LOOPS = {WK + 'setup': 1, WK + 'keygen': 1, WK + 'nondelegable_keygen': 1, WK + 'qualifykey': 1, WK + 'nondelegable_qualifykey': 1,
         WK + 'adjust_nondelegable': 3, WK + 'precompute': 1, WK + 'adjust_precomputed': 3, WK + 'resamplekey': 1,
         WK + 'encrypt_precomputed': 0, WK + 'decrypt': 0, WK + 'decrypt_master': 0, WK + 'sign_precomputed': 2, WK + 'verify_precomputed': 0,
         LQ + 'setup': 0, LQ + 'keygen': 0, LQ + 'encrypt': 0, LQ + 'decrypt': 0}


def check_function(prog, spec):
    """returns (number of segments checked, [(site, message)])"""
    fs = prog.fn_by_qn(spec['fn'])
    if len(fs) != 1:
        raise bm.AnalysisBroken('%s: expected exactly one definition with a body, found %d' % (spec['fn'], len(fs)))
    f = fs[0]
    g = CFG(f)
    want_loops = LOOPS.get(spec['fn'])
    if want_loops is None or len(g.loops) != want_loops:
        # the effect tables are written per segment between loop heads: with another loop structure they say nothing about the routine
        raise bm.AnalysisBroken('R-SCHEME: %s has %d loop(s); the segment tables of the construction were written for %s - the routine has been '
                                'restructured and this rule has no verdict on it (the structure-independent rules still apply)'
                                % (spec['fn'], len(g.loops), want_loops))
    # the tables name the routine's state variables (cursors, the slot index, the randomness): a routine that no longer has them walks
    # its data differently
    names = set()
    for x in walk(f['body']):
        if isinstance(x, dict) and x.get('k') == 'decl':
            for v in x['vars']:
                names.add(v.get('name'))
    for p_ in f.get('params', []):
        names.add(p_.get('name'))
    missing = [s_ for s_ in spec.get('state', []) if s_.startswith('L:') and s_[2:] in ('i', 'j', 'k', 'x') and s_[2:] not in names]
    if missing:
        raise bm.AnalysisBroken('R-SCHEME: %s has no local %s; the segment tables of the construction were written for the routine that has them - '
                                'restructured, no verdict' % (spec['fn'], ', '.join(m_[2:] for m_ in missing)))
    problems = []
    nseg = 0
    scratch = set(spec.get('scratch', []))
    work = []
    for (frm, to, path) in grpdom.segments(g):
        try:
            for (seg, conds) in grpdom.run_path_all(prog, f, g, path):
                work.append((frm, to, path, seg, conds))
        except grpdom.Unsupported as e:
            raise bm.AnalysisBroken('R-SCHEME cannot model %s (%s -> %s): %s' % (spec['fn'], frm, to, e))
    # a group-valued local that the tree the tables were written for does not have, and whose value ENTERS a segment (it is carried from
    # an earlier segment) and reaches an output there, is a new accumulator: the per-segment effects of the tables - "this iteration
    # updates the output by this term" - no longer describe where the terms are, correct or not (a deferred sum folded in at the end).
    from . import normalise
    base_locals = normalise.baseline_locals()
    if base_locals is not None:
        known = {n_ for (q_, n_) in base_locals if q_ == spec['fn']}
        for (frm, to, path, seg, conds) in work:
            if seg is None:
                continue
            for l, gv in dict(seg.effects()).items():
                if not isinstance(gv, Elt):
                    continue
                is_out = any(l == o.rstrip('.') or l.startswith(o) or l.startswith(o.rstrip('.') + '[') for o in spec['outputs'])
                if not is_out:
                    continue
                for b in gv.t:
                    if isinstance(b, str) and b.startswith('L:'):
                        nm = b[2:].split('.')[0].split('[')[0]
                        if nm and nm not in known and nm in names:
                            raise bm.AnalysisBroken('R-SCHEME: %s accumulates into the new local `%s` across loop segments and folds it into %s '
                                                    'later; the segment tables of the construction describe per-iteration updates of the outputs '
                                                    'and have no verdict on a deferred accumulation' % (spec['fn'], nm, l))
    for (frm, to, path, seg, conds) in work:
        if seg is None:
            continue
        # the same test on the same values cannot come out differently twice: such a path is infeasible
        seen = {}
        contradictory = False
        for (k, lab) in conds:
            if k[0] in ('cmp', 'truth'):
                k_, lab_ = k, lab
                if k[0] == 'cmp' and k[1] in ('==', '!='):
                    # a == b and a != b (either operand order) are one test
                    a_, b_ = sorted((k[2], k[3]))
                    k_, lab_ = ('cmp', '==', a_, b_), (lab if k[1] == '==' else (not lab))
                if seen.setdefault(k_, lab_) != lab_:
                    contradictory = True
        if contradictory:
            continue
        cat = ', '.join('%s=%s' % (fmt_key(k), 'T' if lab else 'F') for (k, lab) in dict.fromkeys(conds)) or '-'
        try:
            want = spec['segs'](frm, to, conds)
        except Infeasible:
            continue
        except Mismatch as m:
            site = loc_str(g.nodes[path[0][0]].ast) if g.nodes[path[0][0]].ast else loc_str(f)
            problems.append((frm, to, cat, str(m)))
            nseg += 1
            continue
        nseg += 1
        got = dict(seg.effects())
        if seg.ret is not None and isinstance(seg.ret, tuple):
            got['@return'] = seg.ret
        cbs = [c for c in seg.calls if c[0] == 'callback']
        if cbs:
            got['@callback'] = tuple(a[1] if a[0] in ('loc', 'ptr', 'obj') else a[1] for a in cbs[0][1][:3])
        other_calls = [c for c in seg.calls if c[0] != 'callback']
        links = spec.get('links', [])
        for l, w in want.items():
            gv = got.get(l)
            if isinstance(w, tuple) and w and w[0] == 'fresh':
                ok = isinstance(gv, Elt) and len(gv.t) == 1 and list(gv.t)[0].startswith('gen#') and list(gv.t.values())[0] == ZPoly.const(1)
                if not ok:
                    problems.append((frm, to, cat, '%s must be a fresh independent generator, got %r' % (l, gv)))
                continue
            if gv is None:
                problems.append((frm, to, cat, '%s is not written (the scheme requires %s := %r)' % (l, l, w)))
                continue
            if not same(_subst_links(gv, links), _subst_links(w, links)):
                problems.append((frm, to, cat, '%s := %r, the scheme requires %r' % (l, gv, w)))
        for l, gv in got.items():
            if l in want or l.startswith('@'):
                continue
            # frame condition: only the routine's outputs and the locals that carry state between segments are constrained; other
            # locals cannot influence an output except through a value that is compared above
            is_out = any(l == o.rstrip('.') or l.startswith(o) or l.startswith(o.rstrip('.') + '[') for o in spec['outputs'])
            is_state = to != 'exit' and (l in spec.get('state', []) or l in spec.get('keep', []))
            if is_out or is_state:
                problems.append((frm, to, cat, '%s := %r is written, which the scheme does not prescribe on this path' % (l, gv)))
        for c in other_calls:
            problems.append((frm, to, cat, 'call to %s at %s is outside the modelled scheme operations' % (c[0], c[2])))
    return nseg, problems, f


def fmt_key(k):
    if k[0] == 'cmp':
        return '%s%s%s' % (k[2], k[1], k[3])
    if k[0] == 'truth':
        return k[1]
    return '%s(%s)' % (k[1], ','.join(str(x) for x in (k[3] if len(k) > 3 else ())))


def rule_scheme(ctx, cfg, prog, which=None, rule='R-SCHEME'):
    n = 0
    for spec in all_specs():
        short = spec['fn'].split('embedded_pairing::')[-1]
        if which is not None and not any(short == w or (('::' not in w) and short == 'wkdibe::' + w) for w in which):
            continue
        nseg, problems, f = check_function(prog, spec)
        n += nseg
        # one obligation per segment category; failed ones are keyed by their category so that a different failure is a different finding
        bad = {}
        for (frm, to, cat, msg) in problems:
            bad.setdefault((frm, to, cat), []).append(msg)
        for (frm, to, cat), msgs in bad.items():
            ctx.ob(rule, False, 'scheme|%s|%s->%s|%s' % (short, frm, to, cat[:160]), loc_str(f),
                   '%s, segment %s -> %s on the path [%s]: %s' % (short, frm, to, cat, ' ;; '.join(msgs[:3])), cfg=cfg)
        for _ in range(max(nseg - len(bad), 0)):
            ctx.ob(rule, True, 'scheme|%s' % short, loc_str(f), '', cfg=cfg,
                   sample=dict(config=cfg, function=short, segments=nseg, check='effect table of every path segment equals the scheme definition'))
    return n
