"""Control-flow graph built from the structured, resolved AST (one node per simple statement and one per
*atomic* condition, short-circuit operators decomposed), with reachability/dominance primitives and
bounded path enumeration (DESIGN.md appendix A.2)."""
from .facts import walk, strip, loc_str


class Node:
    __slots__ = ('id', 'kind', 'ast', 'succ', 'loop', 'note')

    def __init__(self, nid, kind, ast=None):
        self.id = nid
        self.kind = kind        # entry | exit | stmt | cond | join
        self.ast = ast
        self.succ = []          # list of (node id, label) label in (None, True, False)
        self.loop = None
        self.note = None

    def __repr__(self):
        return 'N%d:%s@%s' % (self.id, self.kind, loc_str(self.ast) if self.ast else '')


def _unwrap(e):
    e = strip(e)
    while isinstance(e, dict) and e.get('k') in ('cast', 'load') and e.get('e') is not None and \
            (e.get('k') == 'load' or e.get('ck') in (None, 'NoOp', 'LValueToRValue', 'IntegralToBoolean', 'IntegralCast')):
        e = strip(e['e'])
    return e


def subst_params(e, binds):
    """copy of expression e with references to the parameters in `binds` ({param id: argument expression}) replaced"""
    if isinstance(e, list):
        return [subst_params(x, binds) for x in e]
    if not isinstance(e, dict):
        return e
    if e.get('k') == 'ref' and e.get('rk') == 'param' and e.get('id') in binds:
        return binds[e['id']]
    if e.get('k') == 'load' and isinstance(e.get('e'), dict) and e['e'].get('k') == 'ref' and e['e'].get('rk') == 'param' and e['e'].get('id') in binds:
        a = binds[e['e']['id']]
        # a reference parameter bound to an lvalue: reading it reads the argument
        return a if (a.get('k') == 'load' or not a.get('lv')) else dict(e, e=a)
    return {k: (subst_params(v, binds) if k not in ('t', 'l') else v) for k, v in e.items()}


def _rename_locals(e, off):
    """copy of e with every local variable id (declarations and references) shifted by `off`: the ids of an inlined callee must not
    collide with those of the function it is inlined into"""
    if isinstance(e, list):
        return [_rename_locals(x, off) for x in e]
    if not isinstance(e, dict):
        return e
    out = {k: (_rename_locals(v, off) if k not in ('t', 'l') else v) for k, v in e.items()}
    if e.get('k') == 'ref' and e.get('rk') == 'local' and isinstance(e.get('id'), int):
        out['id'] = e['id'] + off
    if e.get('k') == 'decl':
        out['vars'] = [dict(v, id=(v['id'] + off) if isinstance(v.get('id'), int) else v.get('id')) for v in out.get('vars', [])]
    return out


def _pure_or_const_calls(e):
    """no assignment / increment; calls only of the is_zero / equal / compare kind (const observers)"""
    for x in walk(e):
        if not isinstance(x, dict):
            continue
        if x.get('k') in ('assign', 'lcall', 'lambda') or (x.get('k') == 'un' and x.get('op') in ('++', '--')):
            return False
        if x.get('k') == 'call' and x.get('name') not in ('is_zero', 'is_one', 'equal', 'compare', 'bit', 'is_normalized', 'is_odd', 'is_even'):
            return False
    return True


def _pure(e):
    return not any(isinstance(x, dict) and (x.get('k') in ('call', 'assign', 'lcall') or (x.get('k') == 'un' and x.get('op') in ('++', '--')))
                   for x in walk(e))


class CFG:
    def __init__(self, fn, inline_this=None):
        self.fn = fn
        # optional: a predicate on callees; a statement `this->helper(args);` whose callee satisfies it is replaced by the helper's body
        self.inline_this = inline_this
        self._inlined = 0
        self.nodes = []
        self.entry = self.new('entry')
        self.exit = self.new('exit')
        self.loops = []         # (head node id, body statement ast, loop ast)
        from . import facts as _facts
        self.prog = _facts.PROG_OF.get(id(fn))
        self._inline_depth = 0
        # `const bool` locals: a test of the local is a test of its initialiser, provided nothing the initialiser reads is written
        # between the declaration and the test (checked on the statement order of the function)
        self.bool_inits = {}
        for x in walk(fn['body']):
            if isinstance(x, dict) and x.get('k') == 'decl':
                for v in x['vars']:
                    t = v.get('t') or {}
                    if t.get('k') == 'bool' and t.get('const') and v.get('init') is not None and v.get('id') is not None and self._readonly(v['init']):
                        self.bool_inits[v['id']] = (v['init'], v.get('l'))
        # local function objects (`auto step = [&] { ... };`): the body is inlined at every call of the closure
        self.lambdas = {}
        for x in walk(fn['body']):
            if isinstance(x, dict) and x.get('k') == 'decl':
                for v in x['vars']:
                    ini = v.get('init')
                    while isinstance(ini, dict) and ini.get('k') in ('cast', 'copyctor', 'bind', 'materialize') and isinstance(ini.get('e'), dict):
                        ini = ini['e']
                    if isinstance(ini, dict) and ini.get('k') == 'lambda' and v.get('id') is not None:
                        self.lambdas[v['id']] = ini
        self._ret_collect = None
        self._unsafe_bools = set()
        for _ in range(4):
            self.nodes = []
            self.entry = self.new('entry')
            self.exit = self.new('exit')
            self.loops = []
            self._subst_uses = []
            self._inlined = 0
            self._build(fn['body'])
            bad = self._verify_substitutions()
            if not bad:
                break
            self._unsafe_bools |= bad

    def _verify_substitutions(self):
        """a test of a const bool local was replaced by a test of its initialiser: exact only if no path from the declaration to the
        test writes something the initialiser reads"""
        if not self._subst_uses:
            return set()
        preds = {}
        for n in self.nodes:
            for (y, lab) in n.succ:
                preds.setdefault(y, []).append(n.id)
        bad = set()
        for (vid, first_node, roots) in self._subst_uses:
            decl = None
            for n in self.nodes:
                if n.kind == 'stmt' and n.ast is not None and n.ast.get('k') == 'decl' and any(v.get('id') == vid for v in n.ast['vars']):
                    decl = n
            if decl is None:
                bad.add(vid)
                continue
            fwd = self.reachable(start=decl.id)
            back = set()
            stack = [first_node]
            while stack:
                x = stack.pop()
                if x in back:
                    continue
                back.add(x)
                if x == decl.id:
                    continue        # a path that passes the declaration again re-evaluates the initialiser there
                stack.extend(preds.get(x, []))
            between = (fwd & back) - {decl.id, first_node}
            for nid in between:
                n = self.nodes[nid]
                if n.ast is not None and self._ast_writes(n.ast, roots):
                    bad.add(vid)
                    break
        return bad

    def live_const_locals(self, node_id):
        """the const-qualified scalar locals and the reference locals whose declaration dominates `node_id` and whose initialiser still has
        the value it had at the declaration when control reaches the node (no path from the declaration to the node writes something the
        initialiser reads, and the initialiser is read-only): [(variable, initialiser)] in declaration order.  A segment of the routine
        that starts at the node may use `initialiser` for the variable."""
        preds = {}
        for n in self.nodes:
            for (y, lab) in n.succ:
                preds.setdefault(y, []).append(n.id)
        out = []
        for n in self.nodes:
            if n.kind != 'stmt' or n.ast is None or n.ast.get('k') != 'decl' or n.id == node_id:
                continue
            for v in n.ast.get('vars', []):
                t = v.get('t') or {}
                ini = v.get('init')
                if ini is None or v.get('id') is None or not (t.get('k') == 'ref' or t.get('const')):
                    continue
                if t.get('k') not in ('ref', 'int', 'bool', 'enum') or not self._readonly(ini):
                    continue
                # dominance: every backward path from the node meets the declaration before the entry
                back, stack, dominated = set(), [node_id], True
                while stack:
                    x = stack.pop()
                    if x in back:
                        continue
                    back.add(x)
                    if x == n.id:
                        continue
                    if x == self.entry.id:
                        dominated = False
                        break
                    stack.extend(preds.get(x, []))
                if not dominated:
                    continue
                roots = self._roots(ini)
                fwd = self.reachable(start=n.id)
                between = (fwd & back) - {n.id}
                if any(self.nodes[b].ast is not None and self._ast_writes(self.nodes[b].ast, roots) for b in between if b != node_id or True):
                    continue
                out.append((n.id, v, ini))
        out.sort(key=lambda x: x[0])
        return [(v, ini) for (_, v, ini) in out]

    def _ast_writes(self, ast, roots):
        for x in walk(ast):
            if not isinstance(x, dict):
                continue
            k = x.get('k')
            if k == 'assign' or (k == 'un' and x.get('op') in ('++', '--')):
                tgt = x.get('lhs') or x.get('e')
                if self._roots(tgt) & roots:
                    return True
            elif k == 'call':
                cal = self.prog.callee(x, self.fn) if self.prog is not None else None
                th = x.get('this')
                if th is not None and (self._roots(th) & roots) and not (cal or {}).get('const_method'):
                    return True
                for i, a in enumerate(x.get('args', [])):
                    if self._roots(a) & roots:
                        pt = (cal['params'][i]['t'] if cal is not None and i < len(cal.get('params', [])) else {})
                        if pt.get('k') in ('ref', 'ptr') and not (pt.get('pointee') or {}).get('const'):
                            return True
                        if cal is None and x.get('name') in ('memcpy', 'memmove', 'memset') and i == 0:
                            return True
        return False

    # ----- conditions written through a named boolean or a small predicate helper -----
    def _roots(self, e):
        out = set()
        for x in walk(e):
            if isinstance(x, dict) and x.get('k') == 'ref' and x.get('rk') in ('local', 'param'):
                out.add(x.get('id'))
            if isinstance(x, dict) and x.get('k') == 'this':
                out.add('this')
        return out

    def _written_between(self, roots, l0, l1):
        """is an object rooted at one of `roots` (possibly) written by a statement located between the two source positions?"""
        if not l0 or not l1:
            return True
        lo, hi = (l0[1], l0[2]), (l1[1], l1[2])
        for x in walk(self.fn['body']):
            if not isinstance(x, dict) or not x.get('l') or not (lo < (x['l'][1], x['l'][2]) < hi):
                continue
            k = x.get('k')
            if k == 'assign' or (k == 'un' and x.get('op') in ('++', '--')):
                tgt = x.get('lhs') or x.get('e')
                if self._roots(tgt) & roots:
                    return True
            elif k == 'call':
                cal = self.prog.callee(x, self.fn) if self.prog is not None else None
                th = x.get('this')
                if th is not None and (self._roots(th) & roots) and not (cal or {}).get('const_method'):
                    return True
                for i, a in enumerate(x.get('args', [])):
                    if self._roots(a) & roots:
                        pt = (cal['params'][i]['t'] if cal is not None and i < len(cal.get('params', [])) else {})
                        if pt.get('k') in ('ref', 'ptr') and not (pt.get('pointee') or {}).get('const'):
                            return True
                        if cal is None and x.get('name') in ('memcpy', 'memmove', 'memset') and i == 0:
                            return True
        return False

    def _predicate_helper(self, call):
        """(return expression, parameter bindings) of a call to an internal-linkage free function returning bool whose body is a single
        `return <expr>;` - a named condition"""
        if self.prog is None or call.get('this') is not None:
            return None
        cal = self.prog.callee(call, self.fn)
        if cal is None or 'body' not in cal or cal.get('linkage') != 'internal' or (cal.get('ret') or {}).get('k') != 'bool' or cal.get('method'):
            return None
        body = cal['body']
        stmts = body.get('body', []) if body.get('k') == 'compound' else [body]
        expr = self._return_expr(stmts)
        if expr is None:
            return None
        args = call.get('args', [])
        if len(args) != len(cal.get('params', [])):
            return None
        return expr, {p['id']: a for p, a in zip(cal['params'], args)}

    def _readonly(self, e):
        """evaluating e changes nothing: no assignment / increment, calls only to const methods and to functions whose pointer and
        reference parameters are all to const"""
        for x in walk(e):
            if not isinstance(x, dict):
                continue
            if x.get('k') in ('assign', 'lcall', 'lambda') or (x.get('k') == 'un' and x.get('op') in ('++', '--')):
                return False
            if x.get('k') == 'call':
                cal = self.prog.callee(x, self.fn) if self.prog is not None else None
                if cal is None:
                    return False
                if x.get('this') is not None and not (cal.get('const_method') or cal.get('static')):
                    return False
                for p in cal.get('params', []):
                    t = p.get('t') or {}
                    if t.get('k') in ('ptr', 'ref') and not (p.get('pointee_const') or (t.get('pointee') or {}).get('const')):
                        return False
        return True

    def _inlinable_body(self, call, cal):
        """the body of a helper called on `this`, ready to stand in for the call statement: locals renamed apart, parameters replaced by the
        (side-effect free) arguments; None when the call is not to be / cannot be inlined"""
        if cal is None or 'body' not in cal or cal is self.fn or not self.inline_this(cal):
            return None
        args = call.get('args', [])
        params = cal.get('params', [])
        if len(args) != len(params) or not all(_pure(a) for a in args):
            return None
        pids = {p['id'] for p in params}
        for x in walk(cal['body']):
            if isinstance(x, dict) and ((x.get('k') == 'assign' and _unwrap(x.get('lhs')).get('k') == 'ref' and _unwrap(x['lhs']).get('rk') == 'param'
                                         and _unwrap(x['lhs']).get('id') in pids and (_unwrap(x['lhs']).get('t') or {}).get('k') != 'ref') or
                                        (x.get('k') == 'un' and x.get('op') in ('++', '--') and _unwrap(x.get('e')).get('rk') == 'param')):
                return None     # the helper modifies a by-value parameter: substitution would not be its meaning
            if isinstance(x, dict) and x.get('k') in ('lambda',):
                return None
        self._inlined += 1
        off = 100000 * self._inlined
        body = _rename_locals(cal['body'], off)
        body = subst_params(body, {p['id']: a for p, a in zip(params, args)})
        for x in walk(body):
            if isinstance(x, dict) and x.get('k') == 'decl':
                for v in x['vars']:
                    t = v.get('t') or {}
                    if t.get('k') == 'bool' and t.get('const') and v.get('init') is not None and v.get('id') is not None and self._readonly(v['init']):
                        self.bool_inits[v['id']] = (v['init'], v.get('l'))
        return body

    @classmethod
    def _return_expr(cls, stmts):
        """the value a statement list returns as ONE expression, when the list is a chain of `if (c) return A; [else return B;]` ending in
        `return E;` (no other statement): c ? A : (...)"""
        stmts = [x for x in stmts if x.get('k') != 'null']
        if not stmts:
            return None
        s0 = stmts[0]
        if s0.get('k') == 'compound':
            return cls._return_expr(list(s0.get('body', [])) + stmts[1:])
        if s0.get('k') == 'decl' and len(s0.get('vars', [])) == 1:
            # `const bool x = E;` in front: x names E in what follows (E side-effect free, x never written: it is const)
            v = s0['vars'][0]
            t = v.get('t') or {}
            if t.get('k') == 'bool' and t.get('const') and v.get('init') is not None and _pure_or_const_calls(v['init']):
                rest = cls._return_expr(stmts[1:])
                if rest is None:
                    return None

                def sub(n):
                    if isinstance(n, list):
                        return [sub(y) for y in n]
                    if not isinstance(n, dict):
                        return n
                    if n.get('k') == 'load' and isinstance(n.get('e'), dict) and n['e'].get('k') == 'ref' and n['e'].get('rk') == 'local' and n['e'].get('id') == v.get('id'):
                        return v['init']
                    if n.get('k') == 'ref' and n.get('rk') == 'local' and n.get('id') == v.get('id'):
                        return v['init']
                    return {k_: (sub(x_) if k_ not in ('t', 'l') else x_) for k_, x_ in n.items()}
                return sub(rest)
            return None
        if s0.get('k') == 'return':
            return s0.get('e')
        if s0.get('k') == 'if' and s0.get('c') is not None:
            th = cls._return_expr([s0['then']]) if s0.get('then') is not None else None
            if th is None:
                return None
            if s0.get('else') is not None:
                el = cls._return_expr([s0['else']])
                if el is None:
                    # the else arm falls through to the rest
                    return None
            else:
                el = cls._return_expr(stmts[1:])
                if el is None:
                    return None
            return {'k': 'cond', 'c': s0['c'], 'then': th, 'else': el, 't': {'k': 'bool', 's': 'bool'}, 'l': s0.get('l')}
        return None

    def new(self, kind, ast=None):
        n = Node(len(self.nodes), kind, ast)
        self.nodes.append(n)
        return n

    def edge(self, a, b, label=None):
        a.succ.append((b.id, label))

    # ----- construction -----
    def _build(self, body):
        last = self._stmt(body, [(self.entry, None)], None, None)
        for (n, lab) in last:
            self.edge(n, self.exit, lab)

    def _connect(self, preds, node):
        for (p, lab) in preds:
            self.edge(p, node, lab)

    def _cond(self, e, preds, ast_owner=None):
        """Decompose condition e; returns (true_exits, false_exits) as lists of (node,label)."""
        e0 = e
        e = strip(e)
        if isinstance(e, dict) and e.get('k') == 'bin' and e.get('op') == '&&':
            t1, f1 = self._cond(e['lhs'], preds)
            t2, f2 = self._cond(e['rhs'], t1)
            return t2, f1 + f2
        if isinstance(e, dict) and e.get('k') == 'bin' and e.get('op') == '||':
            t1, f1 = self._cond(e['lhs'], preds)
            t2, f2 = self._cond(e['rhs'], f1)
            return t1 + t2, f2
        if isinstance(e, dict) and e.get('k') == 'un' and e.get('op') == '!':
            t, f = self._cond(e['e'], preds)
            return f, t
        if isinstance(e, dict) and e.get('k') == 'cond' and (e.get('t') or {}).get('k') == 'bool':
            # c ? A : B as a condition
            tc, fc = self._cond(e['c'], preds)
            ta, fa = self._cond(e['then'], tc)
            tb, fb = self._cond(e['else'], fc)
            return ta + tb, fa + fb
        if isinstance(e, dict) and e.get('k') == 'lit' and 'bool' in e:
            return (preds, []) if e['bool'] else ([], preds)
        u = _unwrap(e)
        if isinstance(u, dict) and u.get('k') == 'ref' and u.get('rk') == 'local' and u.get('id') in self.bool_inits and \
                u.get('id') not in self._unsafe_bools and self._inline_depth < 6:
            init, l0 = self.bool_inits[u['id']]
            self._inline_depth += 1
            try:
                n0 = len(self.nodes)
                r = self._cond(init, preds)
                if len(self.nodes) > n0:
                    self._subst_uses.append((u['id'], n0, self._roots(init)))
                return r
            finally:
                self._inline_depth -= 1
        if isinstance(u, dict) and u.get('k') == 'call' and self._inline_depth < 6:
            ph = self._predicate_helper(u)
            if ph is not None:
                self._inline_depth += 1
                try:
                    return self._cond(subst_params(ph[0], ph[1]), preds)
                finally:
                    self._inline_depth -= 1
        n = self.new('cond', e)
        self._connect(preds, n)
        return [(n, True)], [(n, False)]

    def _stmt(self, s, preds, brk, cont):
        """returns list of (node,label) fall-through exits; brk/cont are lists collecting break/continue exits"""
        if s is None:
            return preds
        k = s.get('k')
        if k == 'compound':
            for c in s['body']:
                preds = self._stmt(c, preds, brk, cont)
            return preds
        if k == 'expr' and self.inline_this is not None and self.prog is not None and self._inline_depth < 4:
            e0 = _unwrap(s.get('e'))
            if isinstance(e0, dict) and e0.get('k') == 'call' and e0.get('this') is not None and _unwrap(e0['this']).get('k') == 'this':
                cal = self.prog.callee(e0, self.fn)
                body = self._inlinable_body(e0, cal)
                if body is not None:
                    saved = self._ret_collect
                    self._ret_collect = []
                    self._inline_depth += 1
                    try:
                        out = self._stmt(body, preds, None, None)
                        out = out + self._ret_collect
                    finally:
                        self._inline_depth -= 1
                        self._ret_collect = saved
                    return out
        if k == 'expr':
            e0 = strip(s.get('e'))
            if isinstance(e0, dict) and e0.get('k') == 'lcall':
                cl = strip(e0.get('closure'))
                while isinstance(cl, dict) and cl.get('k') in ('cast', 'load') and isinstance(cl.get('e'), dict):
                    cl = strip(cl['e'])
                lam = self.lambdas.get(cl.get('id')) if isinstance(cl, dict) and cl.get('k') == 'ref' else None
                if lam is not None and lam.get('body') is not None and not lam.get('params') and lam.get('allref') and self._inline_depth < 6:
                    # a call of a parameterless by-reference closure: its statements run here, on the caller's variables
                    saved = self._ret_collect
                    self._ret_collect = []
                    self._inline_depth += 1
                    try:
                        out = self._stmt(lam['body'], preds, None, None)
                        out = out + self._ret_collect
                    finally:
                        self._inline_depth -= 1
                        self._ret_collect = saved
                    return out
        if k == 'decl' and any(v.get('id') in self.lambdas for v in s.get('vars', [])):
            # the declaration of a closure executes nothing: keep its body out of the node
            s2 = dict(s, vars=[dict(v, init={'k': 'lambda-decl', 'l': v.get('l')}) if v.get('id') in self.lambdas else v for v in s['vars']])
            n = self.new('stmt', s2)
            self._connect(preds, n)
            return [(n, None)]
        if k in ('expr', 'decl', 'null', 'asm'):
            n = self.new('stmt', s)
            self._connect(preds, n)
            return [(n, None)]
        if k == 'return':
            n = self.new('stmt', s)
            self._connect(preds, n)
            if self._ret_collect is not None:
                # a return inside an inlined closure body ends the closure, not the function
                self._ret_collect.append((n, None))
                return []
            self.edge(n, self.exit, None)
            return []
        if k == 'break':
            brk.extend(preds)
            return []
        if k == 'continue':
            cont.extend(preds)
            return []
        if k == 'constexpr_if':
            return self._stmt(s.get('taken'), preds, brk, cont)
        if k == 'if':
            if s.get('init'):
                preds = self._stmt(s['init'], preds, brk, cont)
            t, f = self._cond(s['c'], preds)
            t_out = self._stmt(s['then'], t, brk, cont)
            f_out = self._stmt(s.get('else'), f, brk, cont) if s.get('else') else f
            return t_out + f_out
        if k == 'while':
            head = self.new('join', s)
            head.loop = s
            self._connect(preds, head)
            t, f = self._cond(s['c'], [(head, None)])
            b, c = [], []
            out = self._stmt(s['body'], t, b, c)
            self._connect(out + c, head)
            self.loops.append((head.id, s))
            return f + b
        if k == 'do':
            head = self.new('join', s)
            head.loop = s
            self._connect(preds, head)
            b, c = [], []
            out = self._stmt(s['body'], [(head, None)], b, c)
            t, f = self._cond(s['c'], out + c)
            self._connect(t, head)
            self.loops.append((head.id, s))
            return f + b
        if k == 'for':
            preds = self._stmt(s.get('init'), preds, brk, cont)
            head = self.new('join', s)
            head.loop = s
            self._connect(preds, head)
            if s.get('c') is not None:
                t, f = self._cond(s['c'], [(head, None)])
            else:
                t, f = [(head, None)], []
            b, c = [], []
            out = self._stmt(s['body'], t, b, c)
            latch = out + c
            if s.get('inc') is not None:
                inc = self.new('stmt', dict(k='expr', e=s['inc'], l=s['inc'].get('l')))
                inc.note = 'inc'
                self._connect(latch, inc)
                latch = [(inc, None)]
            self._connect(latch, head)
            self.loops.append((head.id, s))
            return f + b
        if k == 'switch':
            n = self.new('stmt', dict(k='expr', e=s['c'], l=s.get('l')))
            self._connect(preds, n)
            body = s.get('body') or {}
            stmts = body.get('body', []) if body.get('k') == 'compound' else [body]
            b = []
            cur = []
            has_default = False
            for st in stmts:
                while st is not None and st.get('k') in ('case', 'default'):
                    if st.get('k') == 'default':
                        has_default = True
                    cur = cur + [(n, None)]
                    st = st.get('sub')
                cur = self._stmt(st, cur, b, cont)
            return cur + b + ([] if has_default else [(n, None)])
        raise ValueError('unsupported statement kind %s at %s' % (k, loc_str(s)))

    # ----- queries -----
    def reachable(self, start=None, removed_edges=(), removed_nodes=()):
        start = self.entry.id if start is None else start
        seen = set()
        stack = [start]
        rem = set(removed_edges)
        rn = set(removed_nodes)
        while stack:
            x = stack.pop()
            if x in seen or x in rn:
                continue
            seen.add(x)
            for (y, lab) in self.nodes[x].succ:
                if (x, y, lab) in rem:
                    continue
                stack.append(y)
        return seen

    def must_pass_edge(self, src, label, target):
        """every path entry -> target uses an edge (src, *, label)?"""
        rem = [(src, y, lab) for (y, lab) in self.nodes[src].succ if lab == label]
        return target not in self.reachable(removed_edges=rem)

    def must_pass_node(self, via, target):
        return target not in self.reachable(removed_nodes=[via])

    def stmt_nodes(self):
        return [n for n in self.nodes if n.kind == 'stmt']

    def cond_nodes(self):
        return [n for n in self.nodes if n.kind == 'cond']

    def calls_in(self, node):
        if node.ast is None:
            return []
        return [x for x in walk(node.ast) if x.get('k') in ('call', 'icall')]

    def paths(self, start, stop_ids, max_paths=20000, allow_back_edges=0):
        """Enumerate paths from node id `start` until a node in stop_ids (or exit); each node may be visited at
        most 1 + allow_back_edges times.  Yields lists of (node id, label taken to leave it)."""
        out = []
        limit = [0]

        def dfs(x, path, counts):
            if limit[0] > max_paths:
                raise ValueError('path explosion in %s' % self.fn['qn'])
            if x in stop_ids and path:
                out.append(path + [(x, None)])
                limit[0] += 1
                return
            if x == self.exit.id:
                out.append(path + [(x, None)])
                limit[0] += 1
                return
            c = counts.get(x, 0)
            if c > allow_back_edges:
                return
            counts = dict(counts)
            counts[x] = c + 1
            succ = self.nodes[x].succ
            if not succ:
                out.append(path + [(x, None)])
                return
            for (y, lab) in succ:
                dfs(y, path + [(x, lab)], counts)

        dfs(start, [], {})
        return out
