"""Control-flow graph built from the structured, resolved AST (one node per simple statement and one per
*atomic* condition, short-circuit operators decomposed), with reachability/dominance primitives and
bounded path enumeration (DESIGN.md appendix A.2)."""
from .facts import walk, strip, loc_str


class Node:
    __slots__ = ('id', 'kind', 'ast', 'succ', 'loop', 'note')

    def __init__(self, nid, kind, ast=None):
        self.id = nid
        self.kind = kind        # entry | exit | stmt | cond | join
        self.ast = ast
        self.succ = []          # list of (node id, label) label in (None, True, False)
        self.loop = None
        self.note = None

    def __repr__(self):
        return 'N%d:%s@%s' % (self.id, self.kind, loc_str(self.ast) if self.ast else '')


class CFG:
    def __init__(self, fn):
        self.fn = fn
        self.nodes = []
        self.entry = self.new('entry')
        self.exit = self.new('exit')
        self.loops = []         # (head node id, body statement ast, loop ast)
        self._build(fn['body'])

    def new(self, kind, ast=None):
        n = Node(len(self.nodes), kind, ast)
        self.nodes.append(n)
        return n

    def edge(self, a, b, label=None):
        a.succ.append((b.id, label))

    # ----- construction -----
    def _build(self, body):
        last = self._stmt(body, [(self.entry, None)], None, None)
        for (n, lab) in last:
            self.edge(n, self.exit, lab)

    def _connect(self, preds, node):
        for (p, lab) in preds:
            self.edge(p, node, lab)

    def _cond(self, e, preds, ast_owner=None):
        """Decompose condition e; returns (true_exits, false_exits) as lists of (node,label)."""
        e0 = e
        e = strip(e)
        if isinstance(e, dict) and e.get('k') == 'bin' and e.get('op') == '&&':
            t1, f1 = self._cond(e['lhs'], preds)
            t2, f2 = self._cond(e['rhs'], t1)
            return t2, f1 + f2
        if isinstance(e, dict) and e.get('k') == 'bin' and e.get('op') == '||':
            t1, f1 = self._cond(e['lhs'], preds)
            t2, f2 = self._cond(e['rhs'], f1)
            return t1 + t2, f2
        if isinstance(e, dict) and e.get('k') == 'un' and e.get('op') == '!':
            t, f = self._cond(e['e'], preds)
            return f, t
        n = self.new('cond', e)
        self._connect(preds, n)
        return [(n, True)], [(n, False)]

    def _stmt(self, s, preds, brk, cont):
        """returns list of (node,label) fall-through exits; brk/cont are lists collecting break/continue exits"""
        if s is None:
            return preds
        k = s.get('k')
        if k == 'compound':
            for c in s['body']:
                preds = self._stmt(c, preds, brk, cont)
            return preds
        if k in ('expr', 'decl', 'null', 'asm'):
            n = self.new('stmt', s)
            self._connect(preds, n)
            return [(n, None)]
        if k == 'return':
            n = self.new('stmt', s)
            self._connect(preds, n)
            self.edge(n, self.exit, None)
            return []
        if k == 'break':
            brk.extend(preds)
            return []
        if k == 'continue':
            cont.extend(preds)
            return []
        if k == 'constexpr_if':
            return self._stmt(s.get('taken'), preds, brk, cont)
        if k == 'if':
            if s.get('init'):
                preds = self._stmt(s['init'], preds, brk, cont)
            t, f = self._cond(s['c'], preds)
            t_out = self._stmt(s['then'], t, brk, cont)
            f_out = self._stmt(s.get('else'), f, brk, cont) if s.get('else') else f
            return t_out + f_out
        if k == 'while':
            head = self.new('join', s)
            head.loop = s
            self._connect(preds, head)
            t, f = self._cond(s['c'], [(head, None)])
            b, c = [], []
            out = self._stmt(s['body'], t, b, c)
            self._connect(out + c, head)
            self.loops.append((head.id, s))
            return f + b
        if k == 'do':
            head = self.new('join', s)
            head.loop = s
            self._connect(preds, head)
            b, c = [], []
            out = self._stmt(s['body'], [(head, None)], b, c)
            t, f = self._cond(s['c'], out + c)
            self._connect(t, head)
            self.loops.append((head.id, s))
            return f + b
        if k == 'for':
            preds = self._stmt(s.get('init'), preds, brk, cont)
            head = self.new('join', s)
            head.loop = s
            self._connect(preds, head)
            if s.get('c') is not None:
                t, f = self._cond(s['c'], [(head, None)])
            else:
                t, f = [(head, None)], []
            b, c = [], []
            out = self._stmt(s['body'], t, b, c)
            latch = out + c
            if s.get('inc') is not None:
                inc = self.new('stmt', dict(k='expr', e=s['inc'], l=s['inc'].get('l')))
                inc.note = 'inc'
                self._connect(latch, inc)
                latch = [(inc, None)]
            self._connect(latch, head)
            self.loops.append((head.id, s))
            return f + b
        if k == 'switch':
            n = self.new('stmt', dict(k='expr', e=s['c'], l=s.get('l')))
            self._connect(preds, n)
            body = s.get('body') or {}
            stmts = body.get('body', []) if body.get('k') == 'compound' else [body]
            b = []
            cur = []
            has_default = False
            for st in stmts:
                while st is not None and st.get('k') in ('case', 'default'):
                    if st.get('k') == 'default':
                        has_default = True
                    cur = cur + [(n, None)]
                    st = st.get('sub')
                cur = self._stmt(st, cur, b, cont)
            return cur + b + ([] if has_default else [(n, None)])
        raise ValueError('unsupported statement kind %s at %s' % (k, loc_str(s)))

    # ----- queries -----
    def reachable(self, start=None, removed_edges=(), removed_nodes=()):
        start = self.entry.id if start is None else start
        seen = set()
        stack = [start]
        rem = set(removed_edges)
        rn = set(removed_nodes)
        while stack:
            x = stack.pop()
            if x in seen or x in rn:
                continue
            seen.add(x)
            for (y, lab) in self.nodes[x].succ:
                if (x, y, lab) in rem:
                    continue
                stack.append(y)
        return seen

    def must_pass_edge(self, src, label, target):
        """every path entry -> target uses an edge (src, *, label)?"""
        rem = [(src, y, lab) for (y, lab) in self.nodes[src].succ if lab == label]
        return target not in self.reachable(removed_edges=rem)

    def must_pass_node(self, via, target):
        return target not in self.reachable(removed_nodes=[via])

    def stmt_nodes(self):
        return [n for n in self.nodes if n.kind == 'stmt']

    def cond_nodes(self):
        return [n for n in self.nodes if n.kind == 'cond']

    def calls_in(self, node):
        if node.ast is None:
            return []
        return [x for x in walk(node.ast) if x.get('k') in ('call', 'icall')]

    def paths(self, start, stop_ids, max_paths=20000, allow_back_edges=0):
        """Enumerate paths from node id `start` until a node in stop_ids (or exit); each node may be visited at
        most 1 + allow_back_edges times.  Yields lists of (node id, label taken to leave it)."""
        out = []
        limit = [0]

        def dfs(x, path, counts):
            if limit[0] > max_paths:
                raise ValueError('path explosion in %s' % self.fn['qn'])
            if x in stop_ids and path:
                out.append(path + [(x, None)])
                limit[0] += 1
                return
            if x == self.exit.id:
                out.append(path + [(x, None)])
                limit[0] += 1
                return
            c = counts.get(x, 0)
            if c > allow_back_edges:
                return
            counts = dict(counts)
            counts[x] = c + 1
            succ = self.nodes[x].succ
            if not succ:
                out.append(path + [(x, None)])
                return
            for (y, lab) in succ:
                dfs(y, path + [(x, lab)], counts)

        dfs(start, [], {})
        return out
