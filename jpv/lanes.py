"""R-LANES (C15, C09, C02): byte-lane abstract interpretation of the byte-order code.

Value domain: an integer of n bytes is a vector of n *lanes*; a lane is 0, one named source byte, or MIX (anything else).
Shifts by multiples of 8 move lanes, byte-aligned masks keep or clear lanes, `|` / `+` of a lane with 0 is the lane, casts
truncate / zero-extend, memcpy between an integer and a byte array moves lanes in the target's byte order (all five analysis
configurations are little-endian).  Loops have compile-time bounds.  With it, "the free-slot index is stored big-endian and
read back unchanged" and "write_big_endian / read_big_endian reverse the bytes" are decided for all values at once."""
from .facts import walk, strip, loc_str, strip_tmpl
from . import pathrules as pr

MIX = 'MIX'


class Unsupported(Exception):
    pass


class LaneMachine:
    def __init__(self, prog, fn):
        self.prog, self.fn = prog, fn
        self.mem = {}          # (location root string, byte offset) -> lane
        self.vars = {}         # local id -> ('int', value) | ('lanes', [lanes]) | ('obj', root, off)
        self.sources = {}      # root -> lazily created source bytes allowed?
        self.depth = 0

    # ---- locations (root string, byte offset) ----
    def lv(self, e):
        e = strip(e) if e.get('k') == 'load' else e
        k = e.get('k')
        if k == 'ref':
            if e.get('rk') in ('local', 'param'):
                v = self.vars.get(e['id'])
                if isinstance(v, tuple) and v[0] == 'obj':
                    return (v[1], v[2])
                return ('V%d:%s' % (e['id'], e['name']), 0)
            raise Unsupported('reference at %s' % loc_str(e))
        if k == 'this':
            return ('this', 0)
        if k == 'member':
            b = self.ptr(e['base']) if e.get('arrow') else self.lv(e['base'])
            return (b[0], b[1] + (e.get('off') or 0))
        if k == 'index':
            b = self.ptr(e['base'])
            i = self.ival(e['idx'])
            es = ((e.get('t') or {}).get('size')) or 1
            return (b[0], b[1] + i * es)
        if k == 'un' and e.get('op') == '*':
            return self.ptr(e['e'])
        if k == 'cast':
            return self.lv(e['e'])
        raise Unsupported('lvalue %s at %s' % (k, loc_str(e)))

    def ptr(self, e):
        k = e.get('k')
        if k == 'this':
            return ('this', 0)
        if k == 'cast':
            if e.get('ck') == 'ArrayToPointerDecay':
                return self.lv(e['e'])
            return self.ptr(e['e'])
        if k == 'un' and e.get('op') == '&':
            return self.lv(e['e'])
        if k == 'load':
            inner = e['e']
            if inner.get('k') == 'ref':
                v = self.vars.get(inner.get('id'))
                if isinstance(v, tuple) and v[0] == 'obj':
                    return (v[1], v[2])
                if inner.get('rk') == 'param':
                    return ('P:' + inner['name'], 0)
            raise Unsupported('pointer load at %s' % loc_str(e))
        if k == 'bin' and e.get('op') in ('+', '-'):
            b = self.ptr(e['lhs'])
            i = self.ival(e['rhs'])
            es = (((e.get('t') or {}).get('pointee') or {}).get('size')) or 1
            return (b[0], b[1] + (i if e['op'] == '+' else -i) * es)
        raise Unsupported('pointer expression %s at %s' % (k, loc_str(e)))

    # ---- integers known at analysis time ----
    def ival(self, e):
        x = e
        if 'cv' in x and x.get('k') != 'ref':
            return int(x['cv'])
        k = x.get('k')
        if k == 'load':
            inner = x['e']
            if inner.get('k') == 'ref':
                v = self.vars.get(inner.get('id'))
                if isinstance(v, tuple) and v[0] == 'int':
                    return v[1]
                if 'cv' in inner:
                    return int(inner['cv'])
            if 'cv' in x:
                return int(x['cv'])
            raise Unsupported('integer %s at %s' % (inner.get('name'), loc_str(e)))
        if k == 'cast':
            return self.ival(x['e'])
        if k == 'bin':
            a, b = self.ival(x['lhs']), self.ival(x['rhs'])
            ops = {'+': lambda: a + b, '-': lambda: a - b, '*': lambda: a * b, '/': lambda: a // b if b else 0, '>>': lambda: a >> b,
                   '<<': lambda: a << b, '%': lambda: a % b if b else 0, '&': lambda: a & b, '|': lambda: a | b, '!=': lambda: int(a != b),
                   '==': lambda: int(a == b), '<': lambda: int(a < b), '<=': lambda: int(a <= b), '>': lambda: int(a > b), '>=': lambda: int(a >= b)}
            if x['op'] not in ops:
                raise Unsupported('operator %s at %s' % (x['op'], loc_str(e)))
            return ops[x['op']]()
        if k == 'un' and x.get('op') == '-':
            return -self.ival(x['e'])
        raise Unsupported('integer expression %s at %s' % (k, loc_str(e)))

    # ---- lane values ----
    def width(self, e):
        return ((e.get('t') or {}).get('size')) or 0

    def rd_mem(self, root, off, n):
        out = []
        for i in range(n):
            key = (root, off + i)
            if key not in self.mem:
                self.mem[key] = ('b', root, off + i)      # a source byte named after where it lives
            out.append(self.mem[key])
        return out

    def val(self, e):
        """lanes of an integer expression, least significant first"""
        k = e.get('k')
        n = self.width(e)
        if 'cv' in e and k != 'ref' and k != 'load':
            c = int(e['cv'])
            lanes = []
            for i in range(n or 8):
                b = (c >> (8 * i)) & 0xff
                lanes.append(0 if b == 0 else ('c', b))
            return lanes
        if k == 'load':
            inner = e['e']
            if inner.get('k') == 'ref' and inner.get('rk') in ('local', 'param'):
                v = self.vars.get(inner['id'])
                if isinstance(v, tuple) and v[0] == 'lanes':
                    return list(v[1])
                if isinstance(v, tuple) and v[0] == 'int':
                    c = v[1]
                    return [0 if ((c >> (8 * i)) & 0xff) == 0 else ('c', (c >> (8 * i)) & 0xff) for i in range(n)]
                if v is None and inner.get('rk') == 'param':
                    return self.rd_mem('P:' + inner['name'], 0, n)
            root, off = self.lv(inner)
            return self.rd_mem(root, off, n)
        if k == 'cast':
            v = self.val(e['e'])
            if n == 0:
                return v
            return (v + [0] * n)[:n]
        if k == 'bin':
            op = e['op']
            if op in ('<<', '>>'):
                a = self.val(e['lhs'])
                c = self.ival(e['rhs'])
                a = (a + [0] * n)[:n] if n else a
                if c % 8:
                    return [MIX if x != 0 else 0 for x in a] if all(x == 0 for x in a) else [MIX] * len(a)
                s = c // 8
                if op == '<<':
                    return ([0] * s + a)[:len(a)]
                return a[s:] + [0] * min(s, len(a))
            if op in ('|', '+', '^'):
                a, b = self.val(e['lhs']), self.val(e['rhs'])
                m = max(len(a), len(b), n)
                a, b = (a + [0] * m)[:m], (b + [0] * m)[:m]
                out = []
                for x, y in zip(a, b):
                    out.append(y if x == 0 else (x if y == 0 else MIX))
                return out[:n] if n else out
            if op == '&':
                a, b = self.val(e['lhs']), self.val(e['rhs'])
                m = max(len(a), len(b), n)
                a, b = (a + [0] * m)[:m], (b + [0] * m)[:m]
                out = []
                for x, y in zip(a, b):
                    for (p, q) in ((x, y), (y, x)):
                        if p == 0:
                            r = 0
                            break
                        if isinstance(p, tuple) and p[0] == 'c':
                            r = q if p[1] == 0xff else (0 if q == 0 else MIX)
                            break
                    else:
                        r = MIX
                    out.append(r)
                return out[:n] if n else out
        if k == 'call':
            return self.call(e)
        raise Unsupported('value %s at %s' % (k, loc_str(e)))

    # ---- statements ----
    def run(self, s):
        if s is None:
            return False
        k = s.get('k')
        if k == 'compound':
            for c in s['body']:
                if self.run(c):
                    return True
            return False
        if k == 'constexpr_if':
            return self.run(s.get('taken'))
        if k == 'decl':
            for v in s['vars']:
                t = v.get('t') or {}
                init = v.get('init')
                if t.get('k') in ('int', 'bool', 'enum'):
                    if init is None:
                        self.vars[v['id']] = ('lanes', [MIX] * (t.get('size') or 4))
                        continue
                    try:
                        self.vars[v['id']] = ('int', self.ival(init))
                    except Unsupported:
                        self.vars[v['id']] = ('lanes', (self.val(init) + [0] * (t.get('size') or 0))[:t.get('size') or None])
                elif t.get('k') in ('ptr', 'ref') and init is not None:
                    try:
                        o = self.ptr(init) if t.get('k') == 'ptr' else self.lv(init)
                        self.vars[v['id']] = ('obj', o[0], o[1])
                    except Unsupported:
                        pass
                elif t.get('k') in ('record', 'union', 'array'):
                    self.vars[v['id']] = ('obj', 'L%d:%s' % (v['id'], v['name']), 0)
            return False
        if k == 'expr':
            self.expr(s['e'])
            return False
        if k == 'return':
            if s.get('e') is not None:
                try:
                    self.ret = self.val(s['e'])
                except Unsupported:
                    self.ret = None
            return True
        if k == 'if':
            # only early-exit guards are followed past: if (...) return ...;
            then_returns = any(x.get('k') == 'return' for x in walk(s['then']))
            if then_returns and not s.get('else'):
                for c in [x for x in walk(s['c']) if x.get('k') == 'call']:
                    pass
                return False
            raise Unsupported('data-dependent branch at %s' % loc_str(s))
        if k == 'for':
            self.run(s.get('init'))
            for _ in range(4096):
                c = self.ival(s['c']) if s.get('c') is not None else 1
                if not c:
                    return False
                if self.run(s['body']):
                    return True
                if s.get('inc') is not None:
                    self.expr(s['inc'])
            raise Unsupported('loop bound at %s' % loc_str(s))
        if k == 'null':
            return False
        raise Unsupported('statement %s at %s' % (k, loc_str(s)))

    def expr(self, e):
        e = strip(e)
        k = e.get('k')
        if k == 'assign' and e.get('op') == '=':
            l = strip(e['lhs'])
            if l.get('k') == 'ref' and l.get('rk') in ('local', 'param') and not (isinstance(self.vars.get(l['id']), tuple) and self.vars[l['id']][0] == 'obj'):
                n = self.width(l)
                try:
                    self.vars[l['id']] = ('int', self.ival(e['rhs']))
                except Unsupported:
                    self.vars[l['id']] = ('lanes', (self.val(e['rhs']) + [0] * n)[:n])
                return
            root, off = self.lv(e['lhs'])
            n = self.width(e['lhs'])
            v = (self.val(e['rhs']) + [0] * n)[:n]
            for i, x in enumerate(v):
                self.mem[(root, off + i)] = x
            return
        if k == 'un' and e.get('op') in ('++', '--'):
            l = strip(e['e'])
            v = self.vars.get(l.get('id'))
            if isinstance(v, tuple) and v[0] == 'int':
                self.vars[l['id']] = ('int', v[1] + (1 if e['op'] == '++' else -1))
                return
            raise Unsupported('increment at %s' % loc_str(e))
        if k == 'assign' and e.get('op') in ('|=', '+='):
            l = strip(e['lhs'])
            cur = self.vars.get(l.get('id'))
            if isinstance(cur, tuple) and cur[0] == 'lanes':
                b = self.val(e['rhs'])
                m = len(cur[1])
                b = (b + [0] * m)[:m]
                self.vars[l['id']] = ('lanes', [y if x == 0 else (x if y == 0 else MIX) for x, y in zip(cur[1], b)])
                return
            if isinstance(cur, tuple) and cur[0] == 'int':
                self.vars[l['id']] = ('int', cur[1] + self.ival(e['rhs']) if e['op'] == '+=' else cur[1] | self.ival(e['rhs']))
                return
        if k == 'assign' and e.get('op') in ('>>=', '<<='):
            l = strip(e['lhs'])
            cur = self.vars.get(l.get('id')) if l.get('k') == 'ref' else None
            if isinstance(cur, tuple) and cur[0] == 'int':
                c = self.ival(e['rhs'])
                self.vars[l['id']] = ('int', (cur[1] >> c) if e['op'] == '>>=' else (cur[1] << c))
                return
            if isinstance(cur, tuple) and cur[0] == 'lanes':
                c = self.ival(e['rhs'])
                a = list(cur[1])
                if c % 8:
                    self.vars[l['id']] = ('lanes', [0] * len(a) if all(x == 0 for x in a) else [MIX] * len(a))
                    return
                sft = c // 8
                self.vars[l['id']] = ('lanes', (a[sft:] + [0] * min(sft, len(a))) if e['op'] == '>>=' else ([0] * sft + a)[:len(a)])
                return
        if k == 'call':
            self.call(e)
            return
        raise Unsupported('expression statement %s at %s' % (k, loc_str(e)))

    def call(self, e):
        name = e.get('name')
        args = e.get('args', [])
        callee = self.prog.callee(e, self.fn)
        if name in ('memcpy', 'memmove'):
            n = self.ival(args[2])
            d, s_ = self.ptr_or_var(args[0]), self.ptr_or_var(args[1])
            vals = self.read_bytes(s_, n)
            self.write_bytes(d, vals)
            return [0]
        if callee is not None and 'body' in callee and self.depth < 6 and callee['l'][0].startswith(('src/wkdibe/', 'src/lqibe/')) and not callee.get('method'):
            sub = LaneMachine(self.prog, callee)
            sub.mem = self.mem
            sub.depth = self.depth + 1
            for p, a in zip(callee['params'], args):
                if (p['t'] or {}).get('k') in ('int', 'bool', 'enum'):
                    n = (p['t'] or {}).get('size') or 4
                    sub.vars[p['id']] = ('lanes', (self.val(a) + [0] * n)[:n])
                else:
                    raise Unsupported('helper with pointer parameters at %s' % loc_str(e))
            sub.ret = None
            sub.run(callee['body'])
            if sub.ret is None:
                raise Unsupported('helper %s has no modelled result' % name)
            n = self.width(e)
            return (sub.ret + [0] * n)[:n]
        # calls that do not touch the tracked bytes (point conversion / encoding of the group element next to the index)
        if name in ('from_projective', 'from_affine', 'encode', 'decode', 'copy'):
            return [MIX] * (self.width(e) or 1)
        raise Unsupported('call to %s at %s' % (name, loc_str(e)))

    def ptr_or_var(self, a):
        """destination / source of a memcpy: memory location or a scalar local (by address)"""
        x = a
        while isinstance(x, dict) and x.get('k') == 'cast':
            if x.get('ck') == 'ArrayToPointerDecay':
                break
            x = x['e']
        if isinstance(x, dict) and x.get('k') == 'un' and x.get('op') == '&':
            inner = strip(x['e'])
            if inner.get('k') == 'ref' and inner.get('rk') in ('local', 'param') and not (isinstance(self.vars.get(inner['id']), tuple) and self.vars[inner['id']][0] == 'obj'):
                return ('var', inner['id'], self.width(inner))
        return ('mem',) + self.ptr(x)

    def read_bytes(self, where, n):
        if where[0] == 'var':
            v = self.vars.get(where[1])
            if isinstance(v, tuple) and v[0] == 'lanes':
                return (list(v[1]) + [0] * n)[:n]
            if isinstance(v, tuple) and v[0] == 'int':
                return [0 if ((v[1] >> (8 * i)) & 0xff) == 0 else ('c', (v[1] >> (8 * i)) & 0xff) for i in range(n)]
            return [MIX] * n
        return self.rd_mem(where[1], where[2], n)

    def write_bytes(self, where, vals):
        if where[0] == 'var':
            self.vars[where[1]] = ('lanes', (list(vals) + [0] * where[2])[:where[2]])
            return
        for i, x in enumerate(vals):
            self.mem[(where[1], where[2] + i)] = x


# ---------------------------------------------------------------------------------------------- rules
def rule_bigendian_io(ctx, cfg, prog, rule='R-LANES'):
    """BigInt::write_big_endian / read_big_endian / reverse_endianness are the byte reversal, for every instantiated width"""
    n = 0
    for f in sorted(prog.functions.values(), key=lambda f: f['qn']):
        if 'body' not in f or not f['l'][0].startswith('include/core/'):
            continue
        base = strip_tmpl(f['qn'])
        if base not in ('embedded_pairing::core::BigInt::write_big_endian', 'embedded_pairing::core::BigInt::read_big_endian',
                        'embedded_pairing::core::BigInt::reverse_endianness'):
            continue
        size = None
        rec = prog.records.get(f.get('parent') or '')
        if rec:
            # the value occupies byte_length = bits/8 bytes (the `bytes` member); the union may be padded beyond that
            size = [x['t'].get('n') for x in rec['fields'] if x['name'] == 'bytes']
            size = size[0] if size else None
        if not size:
            continue
        m = LaneMachine(prog, f)
        try:
            m.run(f['body'])
        except Unsupported as e:
            from . import buildmodel as bm
            raise bm.AnalysisBroken('R-LANES cannot model %s: %s' % (f['qn'], e))
        which = base.rsplit('::', 1)[1]
        ok = True
        bad = None
        for i in range(size):
            if which == 'write_big_endian':
                got, want = m.mem.get(('P:buffer', i)), ('b', 'this', size - 1 - i)
            elif which == 'read_big_endian':
                got, want = m.mem.get(('this', i)), ('b', 'P:buffer', size - 1 - i)
            else:
                got, want = m.mem.get(('this', i)), ('b', 'this', size - 1 - i)
                if size % 2 and i == size // 2:
                    continue
            if got != want and ok:
                ok, bad = False, (i, got, want)
        n += 1
        ctx.ob(rule, ok, 'lanes|%s' % f['qn'].replace('embedded_pairing::core::', ''), loc_str(f),
               '%s: byte %s of the destination receives %s, the byte reversal requires %s' % ((f['qn'],) + (bad or (0, 0, 0))), cfg=cfg,
               sample=dict(config=cfg, routine=f['qn'].replace('embedded_pairing::core::', ''), bytes=size))
    return n


def rule_freeslot_index(ctx, cfg, prog, rule='R-LANES'):
    """FreeSlot::marshal stores idx big-endian in the 4 wire bytes; FreeSlot::unmarshal reads exactly that back"""
    n = 0
    for f in sorted(prog.functions.values(), key=lambda f: f['qn']):
        if 'body' not in f:
            continue
        base = strip_tmpl(f['qn'])
        if base not in ('embedded_pairing::wkdibe::FreeSlot::marshal', 'embedded_pairing::wkdibe::FreeSlot::unmarshal'):
            continue
        rec = prog.records.get(f.get('parent') or '')
        fld = [x for x in (rec or {}).get('fields', []) if x['name'] == 'idx']
        if not fld:
            continue
        ioff, isz = fld[0]['off'], fld[0]['t'].get('size') or 4
        m = LaneMachine(prog, f)
        try:
            m.run(f['body'])
        except Unsupported as e:
            from . import buildmodel as bm
            raise bm.AnalysisBroken('R-LANES cannot model %s: %s' % (f['qn'], e))
        # the overlay struct's idx member: find its offset from the wire writes / reads
        wire_roots = sorted(set(r for (r, o) in m.mem if r.startswith('P:')))
        is_m = base.endswith('::marshal')
        ok, why = True, ''
        if is_m:
            w = {(r, o): v for (r, o), v in m.mem.items() if r.startswith('P:') and isinstance(v, tuple) and v[0] == 'b' and v[1] == 'this' and ioff <= v[2] < ioff + isz}
            anyw = {(r, o): v for (r, o), v in m.mem.items() if r.startswith('P:') and v == MIX}
            offs = sorted(o for (r, o) in w)
            if len(w) != isz or offs != list(range(offs[0], offs[0] + isz)) if offs else True:
                ok, why = False, 'the %d bytes of idx reach %d distinct consecutive wire bytes (%s)%s' % (isz, len(w), offs, '; some wire bytes receive mixed data' if anyw else '')
            else:
                for j, o in enumerate(offs):
                    src = w[(wire_roots[0] if len(wire_roots) == 1 else [r for (r, oo) in w if oo == o][0], o)]
                    if src[2] != ioff + isz - 1 - j:
                        ok, why = False, 'wire byte %d of the index carries byte %d of idx, big-endian order requires byte %d' % (j, src[2] - ioff, isz - 1 - j)
                        break
        else:
            got = [m.mem.get(('this', ioff + i)) for i in range(isz)]
            srcs = [g for g in got if isinstance(g, tuple) and g[0] == 'b' and g[1].startswith('P:')]
            if len(srcs) != isz or len(set(srcs)) != isz:
                ok, why = False, 'this->idx is assembled from %s (each of its %d bytes must be exactly one wire byte)' % (got, isz)
            else:
                offs = [g[2] for g in got]           # lane 0 = least significant byte = LAST wire byte
                if offs != list(range(offs[0], offs[0] - isz, -1)):
                    ok, why = False, 'this->idx bytes (least significant first) come from wire offsets %s; big-endian order requires descending consecutive offsets' % offs
        n += 1
        ctx.ob(rule, ok, 'lanes|%s' % f['qn'].replace('embedded_pairing::wkdibe::', ''), loc_str(f), '%s: %s' % (f['qn'], why), cfg=cfg,
               sample=dict(config=cfg, routine=f['qn'].replace('embedded_pairing::wkdibe::', ''), index_bytes=isz))
    return n
