"""R-WORDALG (C02, C03): word-level algebraic value numbering of the x86-64 multi-precision assembly routines.

Abstract domain: every 64-bit register / memory word is numbered by an integer polynomial over *atoms*: input words,
and one fresh atom per instruction result (value atoms with their defining polynomial, carry/borrow bits, high halves of
products, truncated products).  An `adc` is the identity  x + y + c_in = v + 2^64 * c_out ; a `mul` is  x*y = lo + 2^64 * hi.
Nothing is executed and no solver is involved: at every `ret` the stored result words are expanded through the defining
identities to a normal form over the input words and compared with the specification polynomial (A+B, A*B, ...); carries
that are dropped or re-used at another weight must be proven zero by an interval argument over the same identities
(companion elimination, `World.bound_ub`).  Control flow is the handful of forward branches of the compare-and-correct
tails; each path carries the facts its branches establish (a carry bit, a word comparison, the borrow of a full
subtraction chain) and the rule requires that these facts DETERMINE the case (value >= modulus or not) the path's result
implements - by the carry of the addition chain, by the borrow of a same-index subtraction chain, or lexicographically
from same-index word comparisons."""
import re
from . import asmcheck
from .asmcheck import x86_reg, x86_mem

W = 1 << 64


class StaleFlag(Exception):
    """an add-with-carry consumes a flag that no instruction on the path defines as a carry (or clears)"""
    pass


class Unsupported(Exception):
    pass


# ---------------------------------------------------------------------------------------------- integer polynomials
class ZPoly:
    __slots__ = ('t',)

    def __init__(self, t=None):
        self.t = t or {}

    @staticmethod
    def const(c):
        return ZPoly({(): c} if c else {})

    @staticmethod
    def var(a):
        return ZPoly({((a, 1),): 1})

    def __add__(self, o):
        o = o if isinstance(o, ZPoly) else ZPoly.const(o)
        r = dict(self.t)
        for m, c in o.t.items():
            v = r.get(m, 0) + c
            if v:
                r[m] = v
            else:
                r.pop(m, None)
        return ZPoly(r)

    __radd__ = __add__

    def __neg__(self):
        return ZPoly({m: -c for m, c in self.t.items()})

    def __sub__(self, o):
        o = o if isinstance(o, ZPoly) else ZPoly.const(o)
        return self + (-o)

    def __rsub__(self, o):
        return (-self) + o

    def __mul__(self, o):
        if not isinstance(o, ZPoly):
            return ZPoly({m: c * o for m, c in self.t.items()} if o else {})
        r = {}
        for m1, c1 in self.t.items():
            for m2, c2 in o.t.items():
                m = _mm(m1, m2)
                v = r.get(m, 0) + c1 * c2
                if v:
                    r[m] = v
                else:
                    r.pop(m, None)
        return ZPoly(r)

    __rmul__ = __mul__

    def is_zero(self):
        return not self.t

    def __eq__(self, o):
        return isinstance(o, ZPoly) and self.t == o.t

    def __hash__(self):
        return hash(frozenset(self.t.items()))

    def is_const(self):
        return all(m == () for m in self.t)

    def const_value(self):
        return self.t.get((), 0)

    def atoms(self):
        return {a for m in self.t for (a, e) in m}

    def single_atom(self):
        """the atom a if the polynomial is exactly `a`, else None"""
        if len(self.t) == 1:
            (m, c), = self.t.items()
            if c == 1 and len(m) == 1 and m[0][1] == 1:
                return m[0][0]
        return None

    def subs(self, mapping):
        """mapping: atom -> ZPoly"""
        if not (self.atoms() & set(mapping)):
            return self
        out = ZPoly()
        for m, c in self.t.items():
            term = ZPoly.const(c)
            for (a, e) in m:
                p = mapping.get(a)
                if p is None:
                    p = ZPoly.var(a)
                for _ in range(e):
                    term = term * p
            out = out + term
        return out

    def coeff_gcd_divisible(self, d):
        return all(c % d == 0 for c in self.t.values())

    def __repr__(self):
        if not self.t:
            return '0'
        parts = []
        for m, c in sorted(self.t.items(), key=lambda x: str(x[0]))[:8]:
            cs = hex(c) if abs(c) > 9 else str(c)
            parts.append(cs + ''.join('*%s%s' % (a, '^%d' % e if e > 1 else '') for a, e in m))
        return ' + '.join(parts) + (' + ...(%d terms)' % len(self.t) if len(self.t) > 8 else '')


def _mm(a, b):
    if not a:
        return b
    if not b:
        return a
    d = dict(a)
    for v, e in b:
        d[v] = d.get(v, 0) + e
    return tuple(sorted(d.items()))


ZERO = ZPoly()
ONE = ZPoly.const(1)


def big(words, wsz=None):
    wsz = wsz or W
    out = ZPoly()
    for i, w in enumerate(words):
        out = out + w * (wsz ** i)
    return out


# ---------------------------------------------------------------------------------------------- atoms and identities
class World:
    def __init__(self):
        self.atoms = {}       # name -> dict(kind, lo, hi, defn, comp, partner, rel)
        self.n = 0
        self.events = []      # arithmetic events (add/sub families) in creation order
        self.products = {}
        self._exp = {}

    def new(self, prefix, kind, lo, hi, **kw):
        self.n += 1
        name = '%s%d' % (prefix, self.n)
        self.atoms[name] = dict(kind=kind, lo=lo, hi=hi, **kw)
        return name

    def input(self, name, hi=None):
        if name not in self.atoms:
            self.atoms[name] = dict(kind='input', lo=0, hi=(W - 1) if hi is None else hi)
        return ZPoly.var(name)

    def weight(self, a):
        return self.atoms[a].get('weight') or W

    # ---- intervals from atom ranges ----
    def rng(self, p):
        lo = hi = 0
        for m, c in p.t.items():
            l = h = 1
            for (a, e) in m:
                at = self.atoms[a]
                l *= at['lo'] ** e
                h *= at['hi'] ** e
            if c > 0:
                lo += c * l
                hi += c * h
            else:
                lo += c * h
                hi += c * l
        return lo, hi

    # ---- expansion through the defining identities ----
    def expand_atom(self, a):
        r = self._exp.get(a)
        if r is None:
            d = self.atoms[a].get('defn')
            r = ZPoly.var(a) if d is None else self.expand(d)
            self._exp[a] = r
        return r

    def expand(self, p):
        m = {a: self.expand_atom(a) for a in p.atoms() if self.atoms[a].get('defn') is not None}
        return p.subs(m) if m else p

    # ---- upper bound by companion elimination ----
    def _seq(self, a):
        m_ = re.search(r'(\d+)$', a)
        return int(m_.group(1)) if m_ else 0

    def bound_ub(self, E, limit=600):
        """an upper bound of the integer polynomial E.  Sound steps only: (i) replacing an atom by its defining polynomial (an
        identity); (ii) E <= E + (c/2^64) * v for a carry bit k with coefficient c > 0 whose sum atom v >= 0 satisfies
        v = T - 2^64 k (after scaling E by 2^64 when c is not a multiple of 2^64).  Carries are eliminated newest first, which
        walks a multi-word accumulation row back to  x * B + accumulator."""
        s = 1
        best = None
        deep = getattr(self, 'deep', 0)
        for _ in range(limit):
            changed = True
            while changed:
                changed = False
                sub = {}
                present = E.atoms()
                if deep:
                    # every E reached is an upper bound of the original expression: keep the best interval seen
                    cur = self.rng(E)[1] // s
                    best = cur if best is None else min(best, cur)
                    clos = {a: self.carry_closure(a, deep) for a in present if self.atoms[a]['kind'] == 'val' and self.atoms[a].get('defn') is not None}
                    pres_c = {a for a in present if self.atoms[a]['kind'] in ('carry', 'borrow', 'hi')}
                for a in present:
                    at = self.atoms[a]
                    d = at.get('defn')
                    if at['kind'] == 'val' and d is not None:
                        kinds = {self.atoms[b]['kind'] for b in d.atoms()}
                        # sums of high halves and carries only
                        if kinds <= {'hi', 'carry', 'borrow'}:
                            sub[a] = d
                            continue
                        # a sum whose definition mentions a carry / high half that occurs in E itself
                        if any(b in present and self.atoms[b]['kind'] in ('carry', 'borrow', 'hi') for b in d.atoms()):
                            sub[a] = d
                            continue
                        # ... or whose low-half summand pairs with a high half present in E
                        if any(self.atoms[b]['kind'] == 'lo' and self.atoms[b]['partner'] in present for b in d.atoms()):
                            sub[a] = d
                            continue
                        # ... or (deep mode) whose definition, a few levels down, shares a carry with E or with another sum in E
                        if deep and (clos[a] & pres_c or any(b != a and clos[a] & cb for b, cb in clos.items())):
                            sub[a] = d
                    elif at['kind'] == 'lo':
                        cl = E.t.get(((a, 1),), 0)
                        ch = E.t.get(((at['partner'], 1),), 0)
                        if cl > 0 and ch >= self.weight(a) * cl:
                            sub[a] = d
                if sub:
                    E = E.subs(sub)
                    changed = True
            bits = [(self._seq(a), a, E.t.get(((a, 1),), 0)) for a in E.atoms()
                    if self.atoms[a]['kind'] == 'carry' and self.atoms[a].get('comp') is not None and E.t.get(((a, 1),), 0) > 0]
            if not bits:
                break
            _, a, c = max(bits)
            wa = self.weight(a)
            if c % wa:
                E = E * wa
                s *= wa
                c *= wa
            comp = self.atoms[a]['comp']
            E = E + self.atoms[comp]['defn'] * (c // wa)
            if self.atoms[a].get('exact'):
                # quotient of a split: keep the remainder term (an identity instead of the relaxation by remainder >= 0), so that it
                # cancels against the shifted remainder added elsewhere
                E = E - ZPoly.var(comp) * (c // wa)
        last = self.rng(E)[1] // s
        return last if best is None else min(best, last)

    def carry_closure(self, a, depth):
        key = (a, depth)
        r = self._clos.get(key) if hasattr(self, '_clos') else None
        if r is None:
            if not hasattr(self, '_clos'):
                self._clos = {}
            r = set()
            d = self.atoms[a].get('defn')
            if d is not None:
                for b in d.atoms():
                    kb = self.atoms[b]['kind']
                    if kb in ('carry', 'borrow', 'hi'):
                        r.add(b)
                    elif kb == 'val' and depth > 1:
                        r |= self.carry_closure(b, depth - 1)
            r = frozenset(r)
            self._clos[key] = r
        return r

    def prove_carry_zero(self, k):
        """carry bit k of  v = x + y + cin - 2^64 k  is zero when x + y + cin <= 2^64 - 1"""
        at = self.atoms[k]
        if at['kind'] != 'carry' or at.get('comp') is None:
            return False
        total = self.atoms[at['comp']]['defn'] + ZPoly.var(k) * self.weight(k)
        return self.bound_ub(total) < self.weight(k)


# ---------------------------------------------------------------------------------------------- machine state
class State:
    def __init__(self):
        self.regs = {}
        self.cf = None
        self.of = None
        self.zf = None         # polynomial whose being zero is ZF
        self.mem = {}
        self.stack = []
        self.bits = {}         # bit atom -> 0/1 (facts established by the branches taken)
        self.zeros = []        # (poly, True/False): value atoms known zero / non-zero
        self.path = []         # (addr, mnemonic text, taken?) of the conditional branches
        self.events = []       # indices into World.events executed on this path
        self.notes = []

    def fork(self):
        s = State()
        s.regs = dict(self.regs)
        s.cf, s.of, s.zf = self.cf, self.of, self.zf
        s.mem = dict(self.mem)
        s.stack = list(self.stack)
        s.bits = dict(self.bits)
        s.zeros = list(self.zeros)
        s.path = list(self.path)
        s.events = list(self.events)
        s.notes = list(self.notes)
        return s


X86_ARGS = ['rdi', 'rsi', 'rdx', 'rcx', 'r8', 'r9']
GPR = ['rax', 'rbx', 'rcx', 'rdx', 'rsi', 'rdi', 'rbp', 'rsp'] + ['r%d' % i for i in range(8, 16)]


class X86Machine:
    RET = 'rax'
    ARCH = 'x86_64'
    W = 1 << 64
    WB = 8
    """evaluates one routine on every control-flow path; `args` describes the arguments: 'ptr' or 'int' per position;
    `alias` maps argument index -> argument index whose object it shares"""

    def __init__(self, insns, order, entry, args, alias=None, max_paths=64):
        self.insns, self.order, self.entry = insns, order, entry
        self.idx = {a: i for i, a in enumerate(order)}
        self.world = World()
        self.args = args
        self.alias = alias or {}
        self.finals = []
        self.max_paths = max_paths

    # ---- operands ----
    def region(self, k):
        return self.alias.get(k, k)

    def word_atom(self, k, off):
        if off % self.WB:
            raise Unsupported('unaligned word access to argument %d at offset %d' % (k, off))
        return self.world.input('A%d_%d' % (self.region(k), off // self.WB), self.W - 1)

    def load(self, st, op, ins):
        mm = x86_mem(op)
        disp, base, index = mm
        if index is not None or base is None:
            raise Unsupported('indexed addressing at %#x' % ins.addr)
        bv = st.regs.get(base)
        if not (isinstance(bv, tuple) and bv[0] == 'p'):
            raise Unsupported('load through an untracked pointer at %#x (%s)' % (ins.addr, ins.text))
        key = (self.region(bv[1]), bv[2] + disp)
        if key in st.mem:
            return st.mem[key]
        return self.word_atom(bv[1], bv[2] + disp)

    def store(self, st, op, val, ins):
        disp, base, index = x86_mem(op)
        bv = st.regs.get(base) if base else None
        if index is not None or not (isinstance(bv, tuple) and bv[0] == 'p'):
            raise Unsupported('store through an untracked pointer at %#x (%s)' % (ins.addr, ins.text))
        if (bv[2] + disp) % 8:
            raise Unsupported('unaligned store at %#x' % ins.addr)
        if not isinstance(val, ZPoly):
            raise Unsupported('store of a non-integer value at %#x' % ins.addr)
        st.mem[(self.region(bv[1]), bv[2] + disp)] = val

    def rd(self, st, op, ins):
        """integer value of an operand"""
        if op.startswith('$'):
            v = int(op[1:], 0)
            return ZPoly.const(v % self.W)
        if x86_mem(op) is not None:
            return self.load(st, op, ins)
        r = x86_reg(op)
        v = st.regs.get(r)
        if isinstance(v, ZPoly):
            return v
        raise Unsupported('register %%%s does not hold a tracked integer at %#x (%s)' % (r, ins.addr, ins.text))

    def wr(self, st, op, val, ins):
        if x86_mem(op) is not None:
            return self.store(st, op, val, ins)
        st.regs[x86_reg(op)] = val

    # ---- arithmetic ----
    def value(self, total, kind='val', **kw):
        """atom for a 64-bit result with defining polynomial `total` (must lie in [0, 2^64))"""
        if total.is_const() or total.single_atom() is not None:
            return total
        lo, hi = self.world.rng(total)
        a = self.world.new('v', kind, max(lo, 0), min(hi, self.W - 1), defn=total, **kw)
        return ZPoly.var(a)

    def add_(self, st, x, y, cin, ins):
        total = x + y + cin
        lo, hi = self.world.rng(total)
        if hi < self.W:
            v = self.value(total)
            k = ZERO
        else:
            kn = self.world.new('k', 'carry', 0, 1, weight=self.W)
            k = ZPoly.var(kn)
            vn = self.world.new('v', 'val', 0, self.W - 1, defn=total - k * self.W)
            self.world.atoms[kn]['comp'] = vn
            v = ZPoly.var(vn)
        self.world.events.append(dict(op='add', x=x, y=y, cin=cin, k=k, v=v, addr=ins.addr, text=ins.text, cont=ins.mnem in ('adcq', 'adcxq', 'adoxq', 'adcs', 'adc'), flag='of' if ins.mnem == 'adoxq' else 'cf'))
        st.events.append(len(self.world.events) - 1)
        return v, k

    def sub_(self, st, x, y, bin_, ins):
        total = x - y - bin_
        lo, hi = self.world.rng(total)
        if bin_.is_zero() and y == ONE and self.world.rng(x) in ((0, 1), (0, 0), (1, 1)):
            # x - 1 for a bit x: borrow is exactly 1 - x (the idiom that reloads a saved carry into the flag)
            k = ONE - x
            v = k * (self.W - 1)
            self.world.events.append(dict(op='sub', x=x, y=y, cin=bin_, k=k, v=v, addr=ins.addr, text=ins.text, cont=False, flag='cf'))
            st.events.append(len(self.world.events) - 1)
            return v, k
        if lo >= 0:
            v = self.value(total)
            k = ZERO
        else:
            kn = self.world.new('b', 'borrow', 0, 1, weight=self.W)
            k = ZPoly.var(kn)
            vn = self.world.new('v', 'val', 0, self.W - 1, defn=total + k * self.W)
            self.world.atoms[kn]['comp'] = vn
            v = ZPoly.var(vn)
        self.world.events.append(dict(op='sub', x=x, y=y, cin=bin_, k=k, v=v, addr=ins.addr, text=ins.text, cont=ins.mnem in ('sbbq', 'sbcs', 'sbc'), flag='cf'))
        st.events.append(len(self.world.events) - 1)
        return v, k

    def mul_(self, x, y):
        key = frozenset([x, y])
        if key in self.world.products:
            return self.world.products[key]
        r = self.mul_new(x, y)
        self.world.products[key] = r
        return r

    def mul_new(self, x, y):
        prod = x * y
        lo, hi = self.world.rng(prod)
        if hi < self.W:
            return self.value(prod), ZERO
        hn = self.world.new('h', 'hi', 0, hi // self.W, weight=self.W)
        ln = self.world.new('l', 'lo', 0, self.W - 1, defn=prod - ZPoly.var(hn) * self.W, partner=hn, rel=(x, y), weight=self.W)
        self.world.atoms[hn]['partner'] = ln
        return ZPoly.var(ln), ZPoly.var(hn)

    def need_flag(self, f, name, ins):
        if f is None:
            # the flag was last written by an instruction for which it is not a carry (signed overflow of full-range operands, a
            # subtraction's / shift's leftover) or never written: a carry chain that starts from it computes a value that depends on
            # that stale bit
            raise StaleFlag('%s consumed at %#x (%s) is neither a cleared flag nor the carry of an addition chain: the chain starts from a '
                            'stale flag' % (name, ins.addr, ins.text))
        return f

    # ---- execution ----
    def run(self):
        st = State()
        for r in GPR:
            st.regs[r] = ('cs', r)
        k = 0
        for i, kind in enumerate(self.args):
            if kind == 'ptr':
                st.regs[X86_ARGS[i]] = ('p', i, 0)
            else:
                st.regs[X86_ARGS[i]] = self.world.input('I%d' % i, self.W - 1)
        st.regs['rsp'] = ('sp', 0)
        self.go(st, self.entry)
        return self.finals

    def go(self, st, addr):
        while True:
            ins = self.insns.get(addr)
            if ins is None:
                raise Unsupported('control flow leaves the object at %#x' % addr)
            nxt = self.order[self.idx[addr] + 1] if self.idx[addr] + 1 < len(self.order) else None
            mn, ops = ins.mnem, ins.ops
            if mn in ('retq', 'ret'):
                self.finals.append(st)
                if len(self.finals) > self.max_paths:
                    raise Unsupported('too many paths')
                return
            if mn.startswith('j'):
                m = re.match(r'^(?:0x)?([0-9a-f]+)$', ops[0]) if ops else None
                if m is None:
                    raise Unsupported('indirect jump at %#x' % addr)
                tgt = int(m.group(1), 16)
                if tgt <= addr:
                    raise Unsupported('backward branch at %#x' % addr)
                if mn == 'jmp':
                    addr = tgt
                    continue
                for (taken, s2) in self.branch(st, mn, ins):
                    s2.path.append((addr, ins.text.split('\t', 1)[-1].strip(), taken))
                    self.go(s2, tgt if taken else nxt)
                return
            self.step(st, ins)
            addr = nxt

    def branch(self, st, mn, ins):
        """yield (taken, state) for every feasible outcome"""
        cc = mn[1:]
        conds = {'b': ('cf', 1), 'c': ('cf', 1), 'nae': ('cf', 1), 'ae': ('cf', 0), 'nb': ('cf', 0), 'nc': ('cf', 0),
                 'e': ('zf', 1), 'z': ('zf', 1), 'ne': ('zf', 0), 'nz': ('zf', 0), 'a': ('a', 1), 'nbe': ('a', 1), 'be': ('a', 0), 'na': ('a', 0)}
        if cc not in conds:
            raise Unsupported('conditional jump %s at %#x' % (mn, ins.addr))
        what, sense = conds[cc]
        out = []
        if what == 'cf':
            for val, s2 in self.split_cf(st, ins):
                out.append((val == sense, s2))
        elif what == 'zf':
            for val, s2 in self.split_zf(st, ins):
                out.append((val == sense, s2))
        else:   # above: CF == 0 and ZF == 0
            for c, s2 in self.split_cf(st, ins):
                if c == 1:
                    out.append((sense == 0, s2))
                    continue
                for z, s3 in self.split_zf(s2, ins):
                    above = (z == 0)
                    out.append((above == bool(sense), s3))
        return out

    def bit_value(self, st, p):
        """(value, None) when decided on this path, else (None, (atom, c0, c1)) with p == c0 + c1 * atom"""
        p = p.subs({a: ZPoly.const(v) for a, v in st.bits.items()})
        if p.is_const():
            return p.const_value(), None
        ats = p.atoms()
        if len(ats) == 1:
            a = list(ats)[0]
            c1 = p.t.get(((a, 1),), 0)
            c0 = p.t.get((), 0)
            if self.world.atoms[a]['kind'] in ('carry', 'borrow') and set(p.t) <= {(), ((a, 1),)} and c1 in (1, -1) and c0 + c1 in (0, 1) and c0 in (0, 1):
                return None, (a, c0, c1)
        raise Unsupported('flag is not a single carry/borrow bit: %r' % p)

    def split_cf(self, st, ins):
        f = self.need_flag(st.cf, 'CF', ins)
        val, a = self.bit_value(st, f)
        if val is not None:
            if a is None and f.is_const():
                st.notes.append('conditional jump at %#x (%s) tests a carry flag that is constant %d there: one arm is dead' %
                                (ins.addr, ins.text.split('\t', 1)[-1].strip(), val))
            return [(val, st)]
        out = []
        (atom, c0, c1) = a
        for v in (0, 1):
            s2 = st.fork()
            s2.bits[atom] = v
            if self.consistent(s2):
                out.append((c0 + c1 * v, s2))
        return out

    def split_zf(self, st, ins):
        if st.zf is None:
            raise Unsupported('ZF consumed at %#x is not tracked' % ins.addr)
        z = st.zf
        for (p, isz) in st.zeros:
            if p == z:
                return [(1 if isz else 0, st)]
        if z.is_const():
            return [(1 if z.const_value() == 0 else 0, st)]
        out = []
        for v in (1, 0):
            s2 = st.fork()
            s2.zeros.append((z, bool(v)))
            if self.consistent(s2):
                out.append((v, s2))
        return out

    def consistent(self, st):
        """cheap pruning: a plain compare x ? y with borrow 1 cannot also be equal"""
        for ei in st.events:
            e = self.world.events[ei]
            if e['op'] != 'sub' or not e['cin'].is_zero():
                continue
            ka = e['k'].single_atom()
            for (p, isz) in st.zeros:
                if p == e['v'] and isz and ka is not None:
                    if st.bits.get(ka) == 1:
                        return False
                    st.bits[ka] = 0
        return True

    def step(self, st, ins):
        mn, ops = ins.mnem, ins.ops
        w = self.world
        if mn == 'pushq':
            st.stack.append(st.regs.get(x86_reg(ops[0])))
            return
        if mn == 'popq':
            if not st.stack:
                raise Unsupported('pop from an empty frame at %#x' % ins.addr)
            st.regs[x86_reg(ops[0])] = st.stack.pop()
            return
        if mn in ('movq', 'movl'):
            src, dst = ops
            if src.startswith('$') or x86_mem(src) is not None:
                v = self.rd(st, src, ins)
            else:
                v = st.regs.get(x86_reg(src))
            if mn == 'movl' and not src.startswith('$'):
                raise Unsupported('32-bit move at %#x' % ins.addr)
            if x86_mem(dst) is not None:
                self.store(st, dst, v, ins)
            else:
                st.regs[x86_reg(dst)] = v
            return
        if mn in ('addq', 'adcq', 'adcxq', 'adoxq'):
            x, y = self.rd(st, ops[1], ins), self.rd(st, ops[0], ins)
            if mn == 'addq':
                cin = ZERO
            elif mn == 'adoxq':
                cin = self.need_flag(st.of, 'OF', ins)
            else:
                cin = self.need_flag(st.cf, 'CF', ins)
            v, k = self.add_(st, x, y, cin, ins)
            self.wr(st, ops[1], v, ins)
            if mn == 'adoxq':
                st.of = k
            elif mn == 'adcxq':
                st.cf = k
            else:
                # signed overflow is impossible when both operands and the sum stay below 2^63
                small = all(self.world.rng(t)[1] < (1 << 63) for t in (x, y, x + y + cin))
                st.cf, st.of, st.zf = k, (ZERO if small else None), v
            return
        if mn in ('subq', 'sbbq', 'cmpq'):
            x, y = self.rd(st, ops[1], ins), self.rd(st, ops[0], ins)
            if mn == 'sbbq' and x86_reg(ops[0]) is not None and x86_reg(ops[0]) == x86_reg(ops[1]):
                c = self.need_flag(st.cf, 'CF', ins)
                st.regs[x86_reg(ops[1])] = c * (self.W - 1)      # 0 or 2^64-1
                st.of, st.zf = None, None
                return
            bin_ = self.need_flag(st.cf, 'CF', ins) if mn == 'sbbq' else ZERO
            v, k = self.sub_(st, x, y, bin_, ins)
            if mn != 'cmpq':
                self.wr(st, ops[1], v, ins)
            st.cf, st.of, st.zf = k, None, v
            return
        if mn == 'negq':
            x = self.rd(st, ops[0], ins)
            # only the flag-materialisation idiom  sbb r,r ; neg r  is modelled: x = (2^64-1) * bit
            if len(x.t) == 1 and list(x.t.values())[0] == self.W - 1:
                b = ZPoly({list(x.t.keys())[0]: 1})
                a = b.single_atom()
                if a is not None and w.atoms[a]['kind'] in ('carry', 'borrow'):
                    self.wr(st, ops[0], b, ins)
                    st.cf, st.of, st.zf = b, None, None
                    return
            if x.is_zero():
                st.cf, st.of, st.zf = ZERO, None, ZERO
                return
            v, k = self.sub_(st, ZERO, x, ZERO, ins)
            self.wr(st, ops[0], v, ins)
            st.cf, st.of, st.zf = k, None, v
            return
        if mn in ('xorq', 'xorl'):
            if x86_reg(ops[0]) is not None and x86_reg(ops[0]) == x86_reg(ops[1]):
                st.regs[x86_reg(ops[1])] = ZERO
                st.cf, st.of, st.zf = ZERO, ZERO, ZERO
                return
            raise Unsupported('xor of distinct operands at %#x' % ins.addr)
        if mn == 'mulq':
            x, y = self.rd(st, '%rax', ins), self.rd(st, ops[0], ins)
            lo, hi = self.mul_(x, y)
            st.regs['rax'], st.regs['rdx'] = lo, hi
            st.cf = st.of = st.zf = None
            return
        if mn == 'mulxq':
            x, y = self.rd(st, '%rdx', ins), self.rd(st, ops[0], ins)
            lo, hi = self.mul_(x, y)
            # the high destination is written last (if both name one register it receives the high half)
            st.regs[x86_reg(ops[1])] = lo
            st.regs[x86_reg(ops[2])] = hi
            return
        if mn == 'imulq' and len(ops) == 2:
            x, y = self.rd(st, ops[1], ins), self.rd(st, ops[0], ins)
            un = w.new('u', 'trunc', 0, self.W - 1, rel=(x, y))
            st.regs[x86_reg(ops[1])] = ZPoly.var(un)
            st.cf = st.of = st.zf = None
            return
        if mn == 'seto':
            r = {'al': 'rax', 'bl': 'rbx', 'cl': 'rcx', 'dl': 'rdx'}.get(ops[0].lstrip('%'), x86_reg(ops[0]))
            cur = st.regs.get(r)
            if not (isinstance(cur, ZPoly) and 0 <= w.rng(cur)[0] and w.rng(cur)[1] <= 255):
                raise Unsupported('seto into a register whose upper 56 bits are not known to be zero at %#x' % ins.addr)
            st.regs[r] = self.need_flag(st.of, 'OF', ins)
            return
        raise Unsupported('instruction %s at %#x (%s)' % (mn, ins.addr, ins.text))


# ---------------------------------------------------------------------------------------------- AArch64
A64_ARGS = ['x%d' % i for i in range(8)]


def a64_ops(ins):
    return ins.ops


class A64Machine(X86Machine):
    """same algebra, AArch64 instruction subset of the shipped sources.  The carry flag C is kept as a polynomial; a
    subtraction sets C = 1 - borrow."""
    RET = 'x0'
    ARCH = 'aarch64'

    def run(self):
        st = State()
        for i in range(31):
            st.regs['x%d' % i] = ('cs', 'x%d' % i)
        for i, kind in enumerate(self.args):
            st.regs[A64_ARGS[i]] = ('p', i, 0) if kind == 'ptr' else self.world.input('I%d' % i, self.W - 1)
        st.regs['sp'] = ('sp', 0)
        self.go(st, self.entry)
        return self.finals

    def reg(self, st, r, ins):
        if r in ('xzr', 'wzr'):
            return ZERO
        v = st.regs.get(r)
        if isinstance(v, ZPoly):
            return v
        raise Unsupported('register %s does not hold a tracked integer at %#x (%s)' % (r, ins.addr, ins.text))

    def imm_or_reg(self, st, op, ins):
        if op.startswith('#'):
            return ZPoly.const(int(op[1:], 0) % self.W)
        return self.reg(st, op, ins)

    def setreg(self, st, r, v):
        if r not in ('xzr', 'wzr'):
            st.regs[r] = v

    def addr(self, st, ops, k, ins):
        """decode the addressing operands starting at ops[k]; returns (region key or 'sp', offset, writeback register, new value)"""
        op = ops[k]
        m = re.match(r'^\[(\w+)(?:,\s*#(-?(?:0x)?[0-9a-f]+))?\](!?)$', op)
        if m is None:
            raise Unsupported('addressing mode %s at %#x' % (op, ins.addr))
        base, off, pre = m.group(1), int(m.group(2), 0) if m.group(2) else 0, m.group(3) == '!'
        post = None
        if len(ops) > k + 1 and ops[k + 1].startswith('#'):
            post = int(ops[k + 1][1:], 0)
        bv = st.regs.get(base)
        if not (isinstance(bv, tuple) and bv[0] in ('p', 'sp')):
            raise Unsupported('memory access through an untracked pointer at %#x (%s)' % (ins.addr, ins.text))
        cur = bv[2] if bv[0] == 'p' else bv[1]
        eff = cur + off if post is None else cur
        new = None
        if pre:
            new = cur + off
        elif post is not None:
            new = cur + post
        if new is not None:
            st.regs[base] = ('p', bv[1], new) if bv[0] == 'p' else ('sp', new)
        if bv[0] == 'p':
            return ('arg', bv[1]), eff
        return ('sp',), eff

    def mem_rd(self, st, where, off, ins):
        if where[0] == 'sp':
            return st.mem.get(('sp', off))
        key = (self.region(where[1]), off)
        if key in st.mem:
            return st.mem[key]
        return self.word_atom(where[1], off)

    def mem_wr(self, st, where, off, val, ins):
        if where[0] == 'sp':
            st.mem[('sp', off)] = val
            return
        if off % 8:
            raise Unsupported('unaligned store at %#x' % ins.addr)
        if not isinstance(val, ZPoly):
            raise Unsupported('store of a non-integer value at %#x' % ins.addr)
        st.mem[(self.region(where[1]), off)] = val

    def branch(self, st, mn, ins):
        cc = mn.split('.', 1)[1]
        conds = {'lo': ('cf', 0), 'cc': ('cf', 0), 'hs': ('cf', 1), 'cs': ('cf', 1), 'eq': ('zf', 1), 'ne': ('zf', 0), 'hi': ('hi', 1), 'ls': ('hi', 0)}
        if cc not in conds:
            raise Unsupported('conditional branch %s at %#x' % (mn, ins.addr))
        what, sense = conds[cc]
        out = []
        if what == 'cf':
            for val, s2 in self.split_cf(st, ins):
                out.append((val == sense, s2))
        elif what == 'zf':
            for val, s2 in self.split_zf(st, ins):
                out.append((val == sense, s2))
        else:   # hi: C == 1 and Z == 0
            for c, s2 in self.split_cf(st, ins):
                if c == 0:
                    out.append((sense == 0, s2))
                    continue
                for z, s3 in self.split_zf(s2, ins):
                    out.append(((z == 0) == bool(sense), s3))
        return out

    def go(self, st, addr):
        while True:
            ins = self.insns.get(addr)
            if ins is None:
                raise Unsupported('control flow leaves the object at %#x' % addr)
            nxt = self.order[self.idx[addr] + 1] if self.idx[addr] + 1 < len(self.order) else None
            mn, ops = ins.mnem, ins.ops
            if mn == 'ret':
                self.finals.append(st)
                if len(self.finals) > self.max_paths:
                    raise Unsupported('too many paths')
                return
            if mn == 'b' or mn.startswith('b.'):
                m = re.match(r'^(?:0x)?([0-9a-f]+)$', ops[0]) if ops else None
                if m is None:
                    raise Unsupported('indirect branch at %#x' % addr)
                tgt = int(m.group(1), 16)
                if tgt <= addr:
                    raise Unsupported('backward branch at %#x' % addr)
                if mn == 'b':
                    addr = tgt
                    continue
                for (taken, s2) in self.branch(st, mn, ins):
                    s2.path.append((addr, ins.text.split('\t', 1)[-1].strip(), taken))
                    self.go(s2, tgt if taken else nxt)
                return
            self.step(st, ins)
            addr = nxt

    def step(self, st, ins):
        mn, ops = ins.mnem, ins.ops
        if mn in ('ldp', 'ldr'):
            nreg = 2 if mn == 'ldp' else 1
            where, off = self.addr(st, ops, nreg, ins)
            for i in range(nreg):
                v = self.mem_rd(st, where, off + 8 * i, ins)
                self.setreg(st, ops[i], v)
            return
        if mn in ('stp', 'str'):
            nreg = 2 if mn == 'stp' else 1
            vals = [ZERO if ops[i] == 'xzr' else st.regs.get(ops[i]) for i in range(nreg)]
            where, off = self.addr(st, ops, nreg, ins)
            for i in range(nreg):
                self.mem_wr(st, where, off + 8 * i, vals[i], ins)
            return
        if mn == 'mov':
            self.setreg(st, ops[0], st.regs.get(ops[1]) if not ops[1].startswith('#') and ops[1] != 'xzr' else self.imm_or_reg(st, ops[1], ins))
            return
        if mn in ('adds', 'adcs', 'adc', 'add', 'cmn'):
            if mn == 'cmn':
                d, x, y = 'xzr', self.reg(st, ops[0], ins), self.imm_or_reg(st, ops[1], ins)
            else:
                d, x, y = ops[0], self.reg(st, ops[1], ins), self.imm_or_reg(st, ops[2], ins)
            cin = self.need_flag(st.cf, 'C', ins) if mn in ('adcs', 'adc') else ZERO
            v, k = self.add_(st, x, y, cin, ins)
            self.setreg(st, d, v)
            if mn in ('adds', 'adcs', 'cmn'):
                st.cf, st.zf = k, v
            elif not k.is_zero():
                raise Unsupported('non-flag-setting addition that can wrap at %#x (%s)' % (ins.addr, ins.text))
            return
        if mn in ('subs', 'sbcs', 'cmp'):
            if mn == 'cmp':
                d, x, y = 'xzr', self.reg(st, ops[0], ins), self.imm_or_reg(st, ops[1], ins)
            else:
                d, x, y = ops[0], self.reg(st, ops[1], ins), self.imm_or_reg(st, ops[2], ins)
            bin_ = (ONE - self.need_flag(st.cf, 'C', ins)) if mn == 'sbcs' else ZERO
            v, k = self.sub_(st, x, y, bin_, ins)
            self.setreg(st, d, v)
            st.cf, st.zf = ONE - k, v
            return
        if mn in ('mul', 'umulh'):
            lo, hi = self.mul_(self.reg(st, ops[1], ins), self.reg(st, ops[2], ins))
            self.setreg(st, ops[0], lo if mn == 'mul' else hi)
            return
        if mn == 'cset':
            c = self.need_flag(st.cf, 'C', ins)
            if ops[1] in ('hs', 'cs'):
                self.setreg(st, ops[0], c)
            elif ops[1] in ('lo', 'cc'):
                self.setreg(st, ops[0], ONE - c)
            else:
                raise Unsupported('cset %s at %#x' % (ops[1], ins.addr))
            return
        raise Unsupported('instruction %s at %#x (%s)' % (mn, ins.addr, ins.text))


# ---------------------------------------------------------------------------------------------- path results and decisions
class PathResult:
    def __init__(self, m, st, nres):
        self.m, self.st, self.w = m, st, m.world
        self.W = m.W
        self.sub = {a: ZPoly.const(v) for a, v in st.bits.items()}
        self.res = []
        for i in range(nres):
            v = st.mem.get((m.region(0), m.WB * i))
            self.res.append(v)
        self.ret = st.regs.get(m.RET)

    def x(self, p):
        """normal form: expanded through the defining identities, path facts substituted"""
        return self.w.expand(p).subs(self.sub)

    def describe(self):
        return '[' + ', '.join('%s@%#x %s' % (t.split()[0], a, 'taken' if tk else 'not taken') for (a, t, tk) in self.st.path) + ']' if self.st.path else '(straight line)'

    def events(self):
        return [self.w.events[i] for i in self.st.events]

    def chains(self, op):
        """maximal carry/borrow chains executed on the path: lists of events where each event's carry-in is the previous one's carry-out"""
        out = []
        cur = {'cf': None, 'of': None}
        for e in self.events():
            if e['op'] != op:
                # an operation of the other family on the same flag ends the chain
                if e.get('flag') == 'cf':
                    cur['cf'] = None
                continue
            fl = e.get('flag', 'cf')
            c = cur[fl]
            if e.get('cont') and c is not None and e['cin'] == c[-1]['k']:
                c.append(e)
            else:
                c = [e]
                out.append(c)
                cur[fl] = c
        return out

    def bit_fact(self, k):
        """value of a carry/borrow polynomial on this path, or None"""
        v = k.subs(self.sub)
        return v.const_value() if v.is_const() else None

    def rel_facts(self):
        """[(x, y, set of possible relations)] from plain compares / subtractions whose flags were branched on"""
        out = []
        for e in self.events():
            if e['op'] != 'sub' or not e['cin'].is_zero():
                continue
            rel = {'lt', 'eq', 'gt'}
            b = self.bit_fact(e['k'])
            if b == 1:
                rel &= {'lt'}
            elif b == 0:
                rel &= {'eq', 'gt'}
            for (p, isz) in self.st.zeros:
                if p == e['v']:
                    rel &= ({'eq'} if isz else {'lt', 'gt'})
            if rel != {'lt', 'eq', 'gt'}:
                out.append((e['x'], e['y'], rel, e))
        return out

    def decide_ge(self, X, P, xwords_candidates, pwords):
        """Is X >= P on this path?  X, P: normal-form polynomials.  Returns ('ge'|'lt', reason) or (None, why not)."""
        T = X - P
        # (1) a full addition chain with carry-out 1 whose exact sum is X: X >= 2^(64n) > P
        for ch in self.chains('add'):
            n = len(ch)
            tot = ZPoly()
            for i, e in enumerate(ch):
                tot = tot + (e['x'] + e['y']) * (self.W ** i)
            if self.x(tot) == X and self.bit_fact(ch[-1]['k']) == 1 and n == len(pwords):
                return 'ge', 'carry out of the %d-word addition chain ending at %#x is set (value >= 2^%d > modulus)' % (n, ch[-1]['addr'], 64 * n)
        # (2) a full subtraction chain computing exactly X - P whose final borrow is decided
        for ch in self.chains('sub'):
            n = len(ch)
            if n != len(pwords):
                continue
            tot = ZPoly()
            for i, e in enumerate(ch):
                tot = tot + (e['x'] - e['y']) * (self.W ** i)
            b = self.bit_fact(ch[-1]['k'])
            if b is not None and self.x(tot) == T:
                return ('lt' if b else 'ge'), 'borrow out of the %d-word subtraction chain ending at %#x is %d' % (n, ch[-1]['addr'], b)
        # (3) lexicographic: same-index word comparisons, most significant first
        rels = self.rel_facts()
        why = 'no branch fact relates the value to the modulus'
        for xw in xwords_candidates:
            if xw is None or any(v is None for v in xw) or len(xw) != len(pwords):
                continue
            if not (self.x(big(xw, self.W)) - P == T):
                continue
            nx = [self.x(v) for v in xw]
            npw = [self.x(v) for v in pwords]
            decided = None
            for i in range(len(pwords) - 1, -1, -1):
                rel = {'lt', 'eq', 'gt'}
                for (a, b, r, e) in rels:
                    if self.x(a) == nx[i] and self.x(b) == npw[i]:
                        rel &= r
                    elif self.x(a) == npw[i] and self.x(b) == nx[i]:
                        rel &= {{'lt': 'gt', 'gt': 'lt', 'eq': 'eq'}[t] for t in r}
                if rel == {'eq'}:
                    continue
                if rel == {'lt'}:
                    decided = ('lt', 'word %d of the value is below word %d of the modulus and all higher words are equal' % (i, i))
                elif rel == {'gt'}:
                    decided = ('ge', 'word %d of the value is above word %d of the modulus and all higher words are equal' % (i, i))
                elif rel == {'eq', 'gt'} and i == 0:
                    decided = ('ge', 'all higher words equal and word 0 is not below')
                else:
                    why = 'the comparison of word %d (with all higher words equal) is not decided by a same-index compare of the value with ' \
                          'the modulus on this path' % i
                break
            else:
                decided = ('ge', 'all words equal')
            if decided:
                return decided
        return None, why


def operand_words(m, k, n):
    return [m.world.input('A%d_%d' % (m.region(k), i), m.W - 1) for i in range(n)]


# ---------------------------------------------------------------------------------------------- specifications
def _leftover_ok(pr, D, n, allow_mod=True, spec_hi=None):
    """D is the difference result - spec.  Zero, or zero after proving leftover carries zero, or (allow_mod) a multiple of 2^(64n)."""
    if D.is_zero():
        return True, ''
    w = pr.w
    zero = {}
    for a in D.atoms():
        if w.atoms[a]['kind'] == 'carry' and w.prove_carry_zero(a):
            zero[a] = ZERO
    if zero:
        D = D.subs(zero)
    if D.is_zero():
        return True, '%d carry bit(s) proven zero by range' % len(zero)
    if spec_hi is not None and len(D.t) == 1:
        # stored words + c * k == spec with c >= 2^(width): the stored words are >= 0 and spec < 2^(width) <= c, hence k == 0
        (mono, c), = D.t.items()
        if len(mono) == 1 and mono[0][1] == 1 and w.atoms[mono[0][0]]['kind'] == 'carry' and c < 0 and -c >= pr.W ** n > spec_hi >= 0:
            return True, 'the top carry is zero because the full product fits'
    if allow_mod and D.coeff_gcd_divisible(pr.W ** n):
        return True, 'equal modulo 2^%d' % (64 * n)
    return False, repr(D)


def check_exact(pr, n, spec, ret_weight=None, what=''):
    """result words (+ returned carry/borrow * 2^(64 n) * ret_weight) == spec, as an identity"""
    if any(v is None for v in pr.res):
        return False, 'result word %d is never stored' % [i for i, v in enumerate(pr.res) if v is None][0]
    R = pr.x(big(pr.res, pr.W))
    if ret_weight is not None:
        if not isinstance(pr.ret, ZPoly):
            return False, 'the returned carry/borrow is not a tracked value'
        R = R + pr.x(pr.ret) * (ret_weight * pr.W ** n)
    ok, why = _leftover_ok(pr, R - pr.x(spec), n, allow_mod=False, spec_hi=(pr.w.rng(spec)[1] if ret_weight is None else None))
    return ok, ('' if ok else 'stored words%s differ from %s by %s' % (' and returned flag' if ret_weight else '', what, why))


def check_mod_reduce(pr, n, X, P, pwords, sign):
    """sign=+1: result == X - [X >= P] * P ;  sign=-1 (subtraction): result == X + [X < 0] * P"""
    if any(v is None for v in pr.res):
        return False, 'result word %d is never stored on the path %s' % ([i for i, v in enumerate(pr.res) if v is None][0], pr.describe())
    R = pr.x(big(pr.res, pr.W))
    Xn, Pn = pr.x(X), pr.x(P)
    plain, _ = _leftover_ok(pr, R - Xn, n)
    corr, _ = _leftover_ok(pr, R - (Xn - Pn * sign), n)
    if not plain and not corr:
        return False, 'on the path %s the stored result is neither the value nor the value %s the modulus (modulo 2^%d): result - value = %r' % (
            pr.describe(), '-' if sign > 0 else '+', 64 * n, R - Xn)
    if plain and corr:
        return False, 'degenerate: modulus is zero?'
    if sign > 0:
        # candidates for the word vector of the (wrapped) value: the stored words (copy path), the minuends of the last subtraction chain
        cands = [pr.res]
        for ch in pr.chains('sub'):
            cands.append([e['x'] for e in ch])
        for ch in pr.chains('add'):
            cands.append([e['v'] for e in ch])
        verdict, why = pr.decide_ge(Xn, Pn, cands, pwords)
        # when the top carry of the addition is known 0, X is the wrapped value itself: retry on the chain's results
        if verdict is None:
            return False, 'on the path %s the branch conditions do not determine whether the value reaches the modulus (%s), yet the path %s' % (
                pr.describe(), why, 'subtracts it' if corr else 'stores the value unreduced')
        if (verdict == 'ge') != corr:
            return False, 'on the path %s the value is %s the modulus (%s) but the path %s' % (
                pr.describe(), 'at least' if verdict == 'ge' else 'below', why, 'subtracts the modulus' if corr else 'does not subtract the modulus')
        return True, why
    # subtraction: the correction is applied exactly when the subtraction chain borrowed
    for ch in pr.chains('sub'):
        tot = ZPoly()
        for i, e in enumerate(ch):
            tot = tot + (e['x'] - e['y']) * (pr.W ** i)
        b = pr.bit_fact(ch[-1]['k'])
        if len(ch) == n and pr.x(tot) == Xn and b is not None:
            if bool(b) != corr:
                return False, 'on the path %s the difference is %s but the modulus is %s' % (pr.describe(), 'negative' if b else 'non-negative',
                                                                                             'added back' if corr else 'not added back')
            return True, 'borrow of the subtraction chain is %d' % b
    return False, 'on the path %s the branch conditions do not determine the sign of the difference' % pr.describe()


def check_montgomery(pr, n, m, T=None, parg=2, invarg=3):
    """result == V - [V >= P] * P with 2^(64n) * V == T + U*P, U the quotient words u_i = lo(inv * t_i), low n words cancelled"""
    w = pr.w
    if T is None:
        T = big([m.world.input('A%d_%d' % (m.region(1), i), m.W - 1) for i in range(2 * n)], m.W)
    pw = operand_words(m, parg, n)
    P = big(pw, m.W)
    inv = m.world.input('I%d' % invarg, m.W - 1)
    if any(v is None for v in pr.res):
        return False, 'result word never stored'
    # quotient words: low halves / truncated products whose factors are (inv, running word), in creation order
    us = []
    for name, at in w.atoms.items():
        if at['kind'] in ('trunc', 'lo') and at.get('rel') is not None:
            x, y = at['rel']
            if x == inv or y == inv:
                us.append((name, y if x == inv else x))
    if len(us) != n:
        return False, 'expected %d quotient words u_i = lo(inv * t_i), found %d' % (n, len(us))
    # the discarded low word of every row: z_i = t_i + lo(u_i * p_0) - 2^64 k ; zero because inv * p_0 == -1 (mod 2^64)
    zs = []
    for (un, t) in us:
        found = None
        for e in pr.events():
            if e['op'] != 'add' or not e['cin'].subs(pr.sub).is_zero():
                continue
            for (a, b) in ((e['x'], e['y']), (e['y'], e['x'])):
                la = b.single_atom()
                if a == t and la is not None and w.atoms[la]['kind'] == 'lo':
                    fx, fy = w.atoms[la]['rel']
                    if {fx, fy} == {ZPoly.var(un), pw[0]}:
                        found = e
            if found:
                break
        if found is None:
            return False, 'row of quotient word %s: the addition  t_i + lo(u_i * p[0])  that cancels the low word was not found' % un
        zs.append(found['v'])
    U = big([ZPoly.var(un) for (un, t) in us], m.W)
    R = pr.x(big(pr.res, m.W))
    Z = pr.x(big(zs, m.W))
    Pn = pr.x(P)
    spec = pr.x(T) + pr.x(U) * Pn
    # V = the six words that hold the value before the final correction: the stored words themselves (copy paths), or the minuends
    # of a full subtraction chain whose subtrahend is the modulus (correcting paths)
    cands = [(pr.res, False)]
    for ch in pr.chains('sub'):
        if len(ch) == n and [pr.x(e['y']) for e in ch] == [pr.x(v) for v in pw]:
            cands.append(([e['x'] for e in ch], True))
    last = 'no candidate for the pre-correction value'
    for (xw, corr) in cands:
        V = pr.x(big(xw, m.W))
        okv, why1 = _leftover_ok(pr, V * (m.W ** n) + Z - spec, 2 * n)
        if not okv:
            last = '2^%d * V + (cancelled low words) differs from T + U*p (modulo 2^%d) by %s' % (64 * n, 128 * n, why1[:300])
            continue
        okr, why2 = _leftover_ok(pr, R - (V - Pn if corr else V), n)
        if not okr:
            last = 'the stored result is not V%s (modulo 2^%d): difference %s' % (' - p' if corr else '', 64 * n, why2[:300])
            continue
        verdict, why = pr.decide_ge(V, Pn, [xw], pw)
        if verdict is None:
            return False, 'on the path %s the branch conditions do not determine whether the reduced value reaches the modulus (%s), yet the path %s' % (
                pr.describe(), why, 'subtracts it' if corr else 'stores the value unreduced')
        if (verdict == 'ge') != corr:
            return False, 'on the path %s the value is %s the modulus (%s) but the path %s' % (
                pr.describe(), 'at least' if verdict == 'ge' else 'below', why, 'subtracts the modulus' if corr else 'does not subtract the modulus')
        return True, why
    return False, 'on the path %s: %s' % (pr.describe(), last)


SPECS = {
    # suffix of the symbol name -> (argument kinds, result words, checker, admitted aliasing patterns {out arg: in arg})
    'bigint_384_add': (('ptr', 'ptr', 'ptr'), 6, 'add', [{}, {0: 1}, {0: 2}, {0: 1, 2: 1}]),
    'bigint_384_subtract': (('ptr', 'ptr', 'ptr'), 6, 'sub', [{}, {0: 1}, {0: 2}, {0: 1, 2: 1}]),
    'bigint_384_multiply2': (('ptr', 'ptr'), 6, 'dbl', [{}, {0: 1}]),
    'fpbase_384_add': (('ptr', 'ptr', 'ptr', 'ptr'), 6, 'fpadd', [{}, {0: 1}, {0: 2}, {0: 1, 2: 1}]),
    'fpbase_384_subtract': (('ptr', 'ptr', 'ptr', 'ptr'), 6, 'fpsub', [{}, {0: 1}, {0: 2}, {0: 1, 2: 1}]),
    'fpbase_384_multiply2': (('ptr', 'ptr', 'ptr'), 6, 'fpdbl', [{}, {0: 1}]),
    'bigint_768_multiply': (('ptr', 'ptr', 'ptr'), 12, 'mul', [{}, {2: 1}]),
    'bigint_768_square': (('ptr', 'ptr'), 12, 'sqr', [{}]),
    'fpbase_384_montgomery_reduce': (('ptr', 'ptr', 'ptr', 'int'), 6, 'redc', [{}]),
    # fused multiply / square + Montgomery reduction (AArch64)
    'fpbase_384_multiply': (('ptr', 'ptr', 'ptr', 'ptr', 'int'), 6, 'mulredc', [{}, {0: 1}, {0: 2}, {0: 1, 2: 1}]),
    'fpbase_384_square': (('ptr', 'ptr', 'ptr', 'int'), 6, 'sqrredc', [{}, {0: 1}]),
}


def spec_for(name):
    for suf, sp in SPECS.items():
        if name.endswith(suf):
            return suf, sp
    return None, None


def analyse_routine(insns, order, entry, name, arch='x86_64'):
    """returns list of (pattern, ok, message, npaths, notes)"""
    suf, sp = spec_for(name)
    if sp is None:
        return None
    kinds, nres, which, patterns = sp
    out = []
    for pat in patterns:
        m = (X86Machine if arch == 'x86_64' else A64Machine)(insns, order, entry, kinds, alias=pat)
        finals = m.run()
        msgs = []
        notes = []
        for st in finals:
            pr = PathResult(m, st, nres * 8 // m.WB)
            notes += st.notes
            NW = 384 // (m.WB * 8)
            A = big(operand_words(m, 1, NW), m.W)
            if which in ('add', 'sub', 'fpadd', 'fpsub', 'mul', 'mulredc'):
                B = big(operand_words(m, 2, NW), m.W)
            if which == 'add':
                ok, why = check_exact(pr, NW, A + B, ret_weight=1, what='a + b')
            elif which == 'sub':
                ok, why = check_exact(pr, NW, A - B, ret_weight=-1, what='a - b')
            elif which == 'dbl':
                ok, why = check_exact(pr, NW, A + A, ret_weight=1, what='2a')
            elif which == 'mul':
                ok, why = check_exact(pr, 2 * NW, A * B, what='a * b')
                if not ok:
                    ok, why2 = _leftover_ok(pr, pr.x(big(pr.res, m.W)) - pr.x(A * B), 2 * NW) if all(v is not None for v in pr.res) else (False, why)
            elif which == 'sqr':
                ok, why = check_exact(pr, 2 * NW, A * A, what='a * a')
                if not ok and all(v is not None for v in pr.res):
                    ok, why2 = _leftover_ok(pr, pr.x(big(pr.res, m.W)) - pr.x(A * A), 2 * NW)
            elif which == 'fpadd':
                pw = operand_words(m, 3, NW)
                ok, why = check_mod_reduce(pr, NW, A + B, big(pw, m.W), pw, +1)
            elif which == 'fpdbl':
                pw = operand_words(m, 2, NW)
                ok, why = check_mod_reduce(pr, NW, A + A, big(pw, m.W), pw, +1)
            elif which == 'fpsub':
                pw = operand_words(m, 3, NW)
                ok, why = check_mod_reduce(pr, NW, A - B, big(pw, m.W), pw, -1)
            elif which == 'redc':
                ok, why = check_montgomery(pr, NW, m)
            elif which == 'mulredc':
                ok, why = check_montgomery(pr, NW, m, T=A * B, parg=3, invarg=4)
            elif which == 'sqrredc':
                ok, why = check_montgomery(pr, NW, m, T=A * A, parg=2, invarg=3)
            if not ok:
                msgs.append(why)
        out.append((pat, not msgs, msgs, len(finals), notes, len(m.world.atoms)))
    return out


# ---------------------------------------------------------------------------------------------- rule driver
def rule_wordalg(ctx, cfg, outdir, rule='R-WORDALG'):
    """every x86-64 multi-precision routine computes its specification polynomial on every path and aliasing pattern"""
    from . import buildmodel as bm
    arch = bm.configs()[cfg]['arch']
    if arch not in ('x86_64', 'aarch64') or not bm.configs()[cfg]['asm']:
        return 0
    tbl = asmcheck.build_tables(cfg, outdir)
    n = 0
    for name in sorted(tbl):
        suf, sp = spec_for(name)
        if sp is None:
            continue
        fn, insns, order, addr = tbl[name]
        try:
            res = analyse_routine(insns, order, addr, name, arch)
        except StaleFlag as e:
            n += 1
            ctx.ob(rule, False, 'wordalg|%s|flags' % name, name, '%s: %s' % (name, e), cfg=cfg)
            continue
        except Unsupported as e:
            raise bm.AnalysisBroken('R-WORDALG cannot model %s: %s' % (name, e))
        for (pat, ok, msgs, npaths, notes, natoms) in res:
            n += 1
            pname = 'distinct' if not pat else ','.join('arg%d==arg%d' % (a, b) for a, b in sorted(pat.items()))
            ctx.ob(rule, ok, 'wordalg|%s|%s' % (name, pname), name,
                   '%s (%s): %s' % (name, pname, ' ;; '.join(m[:900] for m in msgs[:2])), cfg=cfg,
                   sample=dict(config=cfg, routine=name, aliasing=pname, paths=npaths, atoms=natoms, specification=SPEC_TEXT[suf]))
    return n


SPEC_TEXT = {
    'bigint_384_add': 'res + 2^384 * returned carry == a + b',
    'bigint_384_subtract': 'res - 2^384 * returned borrow == a - b',
    'bigint_384_multiply2': 'res + 2^384 * returned bit == 2a',
    'fpbase_384_add': 'res == a + b - [a + b >= p] * p, the case decided by the path facts',
    'fpbase_384_subtract': 'res == a - b + [a < b] * p, the case decided by the borrow of the subtraction chain',
    'fpbase_384_multiply2': 'res == 2a - [2a >= p] * p, the case decided by the path facts',
    'bigint_768_multiply': 'res == a * b (all 12 words)',
    'bigint_768_square': 'res == a * a (all 12 words)',
    'fpbase_384_multiply': '2^384 * V == a*b + U * p (quotient words cancel the low half), res == V - [V >= p] * p, the case decided by the path facts',
    'fpbase_384_square': '2^384 * V == a*a + U * p (quotient words cancel the low half), res == V - [V >= p] * p, the case decided by the path facts',
    'fpbase_384_montgomery_reduce': '2^384 * V == T + U * p with u_i = lo(inv * t_i) cancelling the low words (inv * p[0] == -1 mod 2^64), '
                                    'res == V - [V >= p] * p, the case decided by the path facts',
}
