"""R-PRED/bigint: BigInt<n>::is_zero is true exactly when every bit of the storage is zero.

The body is interpreted with concrete control (loop counters, constants) and the storage as symbolic bits: an integer read from
one of the union's views (words, dwords, bytes, std_words, std_dwords) is an OR-value - for every bit position of the value the set
of storage bits that are or-ed into it.  `|` unites, `>> n` / `<< n` shift, a conversion truncates or zero-extends; `v == 0` holds
iff every storage bit mentioned by v is zero.  A function built from `if (v != 0) return false;`, or-accumulation and a final
`return acc == 0 [&& ...]` / `return true` therefore returns true iff all bits of a set U are zero, and U must be the whole object.

The rule is opportunistic: a body written with other constructs is left to R-WORDALG/c++ (which executes is_zero at word level
inside fp_inverse and refuses what it cannot model); only a fully modelled body can produce a verdict here."""
from .facts import strip_tmpl, loc_str

QN = 'embedded_pairing::core::BigInt::is_zero'


class Decline(Exception):
    pass


class Bits:
    """per bit position (0 = least significant) the set of storage bits or-ed into it"""
    __slots__ = ('b',)

    def __init__(self, b):
        self.b = b

    def all(self):
        out = set()
        for s in self.b:
            out |= s
        return out


class Pred:
    """true iff every storage bit of `zero` is zero (neg: the negation)"""
    __slots__ = ('zero', 'neg')

    def __init__(self, zero, neg=False):
        self.zero, self.neg = frozenset(zero), neg


class _Ret(Exception):
    def __init__(self, v):
        self.v = v


class _Break(Exception):
    pass


class _Continue(Exception):
    pass


class Interp:
    def __init__(self, prog, fn, rec):
        self.prog, self.fn, self.rec = prog, fn, rec
        self.fields = {f['name']: f for f in rec['fields']}
        self.must_zero = set()        # storage bits known to be zero on the path still running (earlier `!= 0 -> return false`)
        self.steps = 0

    def width(self, t):
        if (t or {}).get('k') in ('int', 'enum') and t.get('size'):
            return 8 * t['size']
        if (t or {}).get('k') == 'bool':
            return 1
        raise Decline('type %s' % (t or {}).get('s'))

    def ev(self, e, env):
        k = e.get('k')
        if 'cv' in e and not (k == 'ref' and e.get('rk') in ('local', 'param')):
            return int(e['cv'])
        if k == 'lit' and 'bool' in e:
            return int(bool(e['bool']))
        if k in ('load', 'paren'):
            return self.ev(e['e'], env)
        if k == 'ref' and e.get('rk') == 'local':
            if e['id'] not in env or env[e['id']] is None:
                raise Decline('local %s' % e.get('name'))
            return env[e['id']]
        if k == 'index':
            b = e['base']
            while b.get('k') in ('cast', 'load', 'paren'):
                b = b['e']
            if not (b.get('k') == 'member' and (b.get('base') or {}).get('k') == 'this' and b.get('name') in self.fields):
                raise Decline('subscript of something other than a view of *this at %s' % loc_str(e))
            f = self.fields[b['name']]
            i = self.ev(e['idx'], env)
            esz = f['t']['elem']['size']
            if not isinstance(i, int) or not (0 <= i < f['t']['n']):
                raise Decline('subscript at %s' % loc_str(e))
            # little-endian hosts (R-LAYOUT, C17/C19): value bit j of element i is storage bit 8*(off + i*esz) + j
            base = 8 * (f.get('off', 0) + i * esz)
            return Bits([frozenset([base + j]) for j in range(8 * esz)])
        if k == 'cast':
            v = self.ev(e['e'], env)
            t = e.get('t') or {}
            if isinstance(v, Pred):
                if t.get('k') == 'bool':
                    return v
                raise Decline('predicate converted at %s' % loc_str(e))
            if t.get('k') == 'bool':
                if isinstance(v, Bits):
                    return Pred(v.all(), neg=True)
                return int(bool(v))
            w = self.width(t)
            if isinstance(v, Bits):
                st = (e['e'].get('t') or {})
                if st.get('signed') and len(v.b) < w:
                    raise Decline('sign extension of storage data at %s' % loc_str(e))
                return Bits((v.b + [frozenset()] * w)[:w])
            if isinstance(v, int):
                v &= (1 << w) - 1
                if t.get('signed') and v >= 1 << (w - 1):
                    v -= 1 << w
                return v
            raise Decline('conversion at %s' % loc_str(e))
        if k == 'un' and e.get('op') in ('++', '--'):
            # a counter stepped inside an expression (`while (i-- != 0)`): its value before or after the step
            l = e['e']
            while l.get('k') in ('paren', 'load'):
                l = l['e']
            if l.get('k') == 'ref' and l.get('rk') == 'local' and isinstance(env.get(l['id']), int) and not isinstance(env.get(l['id']), bool):
                before = env[l['id']]
                env[l['id']] = before + (1 if e['op'] == '++' else -1)
                return before if e.get('post') else env[l['id']]
            raise Decline('increment at %s' % loc_str(e))
        if k == 'un':
            op = e.get('op')
            v = self.ev(e['e'], env)
            if op == '!':
                if isinstance(v, Pred):
                    return Pred(v.zero, not v.neg)
                if isinstance(v, Bits):
                    return Pred(v.all())
                return int(not v)
            if op == '-' and isinstance(v, int):
                return -v
            raise Decline('operator %s at %s' % (op, loc_str(e)))
        if k == 'bin':
            op = e['op']
            if op in ('&&', '||'):
                a = self.ev(e['lhs'], env)
                if isinstance(a, int):
                    if (op == '&&' and not a) or (op == '||' and a):
                        return int(bool(a))
                    return self.ev(e['rhs'], env)
                b = self.ev(e['rhs'], env)
                if isinstance(b, int):
                    if (op == '&&' and not b) or (op == '||' and b):
                        return int(bool(b))
                    return a
                a, b = self.aspred(a), self.aspred(b)
                if op == '&&' and not a.neg and not b.neg:
                    return Pred(a.zero | b.zero)
                if op == '||' and a.neg and b.neg:
                    return Pred(a.zero | b.zero, neg=True)
                raise Decline('mixed predicate at %s' % loc_str(e))
            a, b = self.ev(e['lhs'], env), self.ev(e['rhs'], env)
            if isinstance(a, int) and isinstance(b, int):
                import operator as o
                f = {'+': o.add, '-': o.sub, '*': o.mul, '<': o.lt, '>': o.gt, '<=': o.le, '>=': o.ge, '==': o.eq, '!=': o.ne,
                     '|': o.or_, '&': o.and_, '^': o.xor, '<<': o.lshift, '>>': o.rshift, '/': o.floordiv, '%': o.mod}.get(op)
                if f is None:
                    raise Decline('operator %s' % op)
                return int(f(a, b))
            if op == '|':
                if isinstance(a, int):
                    a, b = b, a
                if isinstance(b, int):
                    if b == 0:
                        return a
                    raise Decline('or with a constant at %s' % loc_str(e))
                if isinstance(a, Bits) and isinstance(b, Bits) and len(a.b) == len(b.b):
                    return Bits([x | y for x, y in zip(a.b, b.b)])
                raise Decline('or at %s' % loc_str(e))
            if op in ('>>', '<<') and isinstance(a, Bits) and isinstance(b, int) and 0 <= b < len(a.b):
                w = len(a.b)
                if op == '>>':
                    if (e['lhs'].get('t') or {}).get('signed'):
                        raise Decline('arithmetic shift at %s' % loc_str(e))
                    return Bits(a.b[b:] + [frozenset()] * b)
                return Bits(([frozenset()] * b + a.b)[:w])
            if op in ('==', '!=') and ((isinstance(a, Bits) and b == 0 and isinstance(b, int)) or (isinstance(b, Bits) and a == 0 and isinstance(a, int))):
                v = a if isinstance(a, Bits) else b
                return Pred(v.all(), neg=(op == '!='))
            raise Decline('operator %s on storage data at %s' % (op, loc_str(e)))
        raise Decline('expression %s at %s' % (k, loc_str(e)))

    @staticmethod
    def aspred(v):
        if isinstance(v, Pred):
            return v
        if isinstance(v, Bits):
            return Pred(v.all(), neg=True)
        raise Decline('predicate')

    def assign(self, e, env):
        k = e.get('k')
        while k in ('paren',):
            e = e['e']
            k = e.get('k')
        if k == 'assign':
            l = e['lhs']
            while l.get('k') in ('paren',):
                l = l['e']
            if not (l.get('k') == 'ref' and l.get('rk') == 'local'):
                raise Decline('store at %s' % loc_str(e))
            v = self.ev(e['rhs'], env)
            op = e.get('op', '=')
            if op != '=':
                cur = env.get(l['id'])
                if cur is None:
                    raise Decline('uninitialised %s' % l.get('name'))
                w = self.width(l.get('t'))
                if op == '|=':
                    if isinstance(cur, int) and cur == 0:
                        cur = Bits([frozenset()] * w)
                    if isinstance(v, Bits):
                        v = Bits((v.b + [frozenset()] * w)[:w])
                    if isinstance(cur, Bits) and isinstance(v, Bits) and len(cur.b) == len(v.b):
                        v = Bits([x | y for x, y in zip(cur.b, v.b)])
                    elif isinstance(cur, int) and isinstance(v, int):
                        v = cur | v
                    else:
                        raise Decline('or-assignment at %s' % loc_str(e))
                elif op in ('+=', '-=') and isinstance(cur, int) and isinstance(v, int):
                    v = cur + v if op == '+=' else cur - v
                else:
                    raise Decline('assignment %s at %s' % (op, loc_str(e)))
            env[l['id']] = v
            return
        if k == 'un' and e.get('op') in ('++', '--'):
            l = e['e']
            while l.get('k') in ('paren', 'load'):
                l = l['e']
            if l.get('k') == 'ref' and l.get('rk') == 'local' and isinstance(env.get(l['id']), int):
                env[l['id']] += 1 if e['op'] == '++' else -1
                return
            raise Decline('increment at %s' % loc_str(e))
        if k == 'cast':
            return self.assign(e['e'], env)
        if k == 'bin' and e.get('op') == ',':
            self.assign(e['lhs'], env)
            self.assign(e['rhs'], env)
            return
        raise Decline('expression statement %s at %s' % (k, loc_str(e)))

    def cond(self, c, env, s):
        """a branch condition: concrete -> bool; on storage data only the test-and-leave form is followed (see run)"""
        v = self.ev(c, env)
        if isinstance(v, Bits):
            v = Pred(v.all(), neg=True)
        return v

    def run(self, s, env):
        if s is None:
            return
        self.steps += 1
        if self.steps > 200000:
            raise Decline('too many steps')
        k = s.get('k')
        if k == 'compound':
            for c in s['body']:
                self.run(c, env)
        elif k == 'decl':
            for v in s['vars']:
                if 'id' not in v or (v.get('t') or {}).get('k') not in ('int', 'bool', 'enum'):
                    raise Decline('local %s at %s' % (v.get('name'), loc_str(s)))
                if v.get('init') is not None:
                    val = self.ev(v['init'], env)
                    if isinstance(val, Bits):
                        w = self.width(v['t'])
                        val = Bits((val.b + [frozenset()] * w)[:w])
                    env[v['id']] = val
                else:
                    env[v['id']] = None
        elif k == 'expr':
            self.assign(s['e'], env)
        elif k == 'return':
            if s.get('e') is None:
                raise Decline('return without a value')
            raise _Ret(self.ev(s['e'], env))
        elif k == 'if':
            c = self.cond(s['c'], env, s)
            if isinstance(c, int):
                self.run(s['then'] if c else s.get('else'), env)
                return
            # `if (v != 0) return false;`: the path that goes on knows the bits of v are zero
            arm, other = (s['then'], s.get('else')) if c.neg else (s.get('else'), s['then'])
            if arm is None:
                raise Decline('test of storage data at %s is not of the form `if (v != 0) return false;`' % loc_str(s))
            if other is not None and not (other.get('k') == 'compound' and not other['body']) and other.get('k') != 'null':
                raise Decline('both arms of the test at %s do work' % loc_str(s))
            try:
                self.run(arm, dict(env))
            except _Ret as r:
                if r.v == 0 and isinstance(r.v, int):
                    self.must_zero |= c.zero
                    return
                raise Decline('the non-zero arm at %s does not return false' % loc_str(s))
            raise Decline('the non-zero arm at %s falls through' % loc_str(s))
        elif k == 'for':
            self.run(s.get('init'), env)
            self.loop(s, env, first=False)
        elif k in ('while', 'do'):
            self.loop(s, env, first=(k == 'do'))
        elif k == 'break':
            raise _Break()
        elif k == 'continue':
            raise _Continue()
        elif k == 'null':
            return
        else:
            raise Decline('statement %s at %s' % (k, loc_str(s)))

    def loop(self, s, env, first):
        n = 0
        while True:
            if not first:
                c = self.ev(s['c'], env) if s.get('c') is not None else 1
                if not isinstance(c, int):
                    raise Decline('loop condition on storage data at %s' % loc_str(s))
                if not c:
                    break
            first = False
            n += 1
            if n > 4096:
                raise Decline('loop bound at %s' % loc_str(s))
            try:
                self.run(s['body'], env)
            except _Break:
                break
            except _Continue:
                pass
            if s.get('k') == 'for' and s.get('inc') is not None:
                self.assign(s['inc'], env)

    def decide(self):
        """set of storage bits U with: returns true iff every bit of U is zero"""
        try:
            self.run(self.fn['body'], {})
        except _Ret as r:
            v = r.v
            if isinstance(v, int):
                if v:
                    return set(self.must_zero)
                raise Decline('returns false without a test')
            if isinstance(v, Bits):
                v = Pred(v.all(), neg=True)
            if isinstance(v, Pred) and not v.neg:
                return set(self.must_zero) | set(v.zero)
            raise Decline('final predicate is a negation')
        raise Decline('falls off the end')


def _ranges(bits):
    out, bits = [], sorted(bits)
    for b in bits:
        if out and out[-1][1] == b - 1:
            out[-1][1] = b
        else:
            out.append([b, b])
    return ', '.join('%d' % a if a == b else '%d..%d' % (a, b) for a, b in out[:4]) + (' ...' if len(out) > 4 else '')


def rule_is_zero(ctx, cfg, prog, rule='R-PRED/bigint'):
    fs = [f for f in prog.functions.values() if 'body' in f and strip_tmpl(f['qn']) == QN]
    n = 0
    for f in sorted(fs, key=lambda g: g['qn']):
        rec = prog.records.get(f.get('parent'))
        if rec is None or not rec.get('union'):
            ctx.count('%s: not modelled[%s]' % (rule, cfg))
            continue
        try:
            U = Interp(prog, f, rec).decide()
        except Decline as ex:
            # left to R-WORDALG/c++ (word-level execution inside fp_inverse)
            ctx.count('%s: not modelled[%s]' % (rule, cfg))
            ctx.notes.append('%s: %s is written in a form this rule does not follow (%s); decided by R-WORDALG/c++ only' % (rule, f['qn'], ex)) if len(ctx.notes) < 20 else None
            continue
        wf = [x for x in rec['fields'] if x['name'] == 'words']
        if len(wf) != 1 or wf[0].get('off', 0) != 0:
            ctx.count('%s: not modelled[%s]' % (rule, cfg))
            continue
        # the value occupies the `words` view; a wider view (dwords of a one-word integer) ends in padding
        total = set(range(8 * wf[0]['t']['n'] * wf[0]['t']['elem']['size']))
        missing = total - U
        n += 1
        ctx.ob(rule, not missing, 'bigpred|is_zero|%s' % f.get('parent', '')[-11:], loc_str(f),
               '%s returns true although the value may be non-zero: storage bit(s) %s (of %d) are never tested' % (f['qn'], _ranges(missing), len(total)),
               cfg=cfg, sample=dict(config=cfg, routine=f['qn'], storage_bits=len(total), bits_tested=len(U & total)))
    return n
