"""R-NOWRAP (C02): in the multi-precision layer every unsigned addition either provably cannot wrap (exact upper bound
of the expression from the widths its operands were widened from) or its carry-out is observed (the stored sum is
compared with an addend - the BigInt::add idiom).  A dropped carry is the classic 2^-64-probability defect that uniform
sampling never reaches."""
from .facts import walk, strip, loc_str, strip_tmpl
from . import pathrules as pr


def bits_of(t):
    return 8 * (t or {}).get('size', 0)


_CONST_INITS = {}     # per function (set by rule_nowrap): local id -> initialiser of a const-qualified integer local
_BUSY = set()


def umax(e):
    """upper bound of an unsigned integer expression, computed in exact (unbounded) arithmetic"""
    if not isinstance(e, dict):
        return None
    if 'cv' in e:
        v = int(e['cv'])
        return v if v >= 0 else None
    k = e.get('k')
    t = e.get('t') or {}
    tmax = (1 << bits_of(t)) - 1 if bits_of(t) else None
    if k == 'load':
        inner = e.get('e') or {}
        if inner.get('k') == 'ref' and inner.get('rk') == 'local' and inner.get('id') in _CONST_INITS and inner['id'] not in _BUSY:
            # a const-qualified local holds the value it was initialised with: its bound is the initialiser's
            _BUSY.add(inner['id'])
            try:
                b = umax(_CONST_INITS[inner['id']])
            finally:
                _BUSY.discard(inner['id'])
            if b is not None:
                return b if tmax is None else min(b, tmax)
        return tmax
    if k == 'cast':
        inner = umax(e['e'])
        it = (e['e'].get('t') or {})
        if inner is None:
            return tmax
        if t.get('k') == 'bool':
            return 1
        if bits_of(t) >= bits_of(it):
            return inner if tmax is None else min(inner, tmax) if inner <= tmax else tmax
        return tmax if inner > tmax else inner
    if k == 'bin':
        op = e['op']
        a, b = umax(e['lhs']), umax(e['rhs'])
        if op in ('<', '<=', '>', '>=', '==', '!=', '&&', '||'):
            return 1
        if a is None or b is None:
            return tmax
        if op == '+':
            return a + b
        if op == '*':
            return a * b
        if op == '>>':
            bmin = 0
            r = strip(e['rhs'])
            if 'cv' in r:
                return a >> int(r['cv'])
            return a
        if op == '<<':
            r = strip(e['rhs'])
            if 'cv' in r:
                return a << int(r['cv'])
            return tmax
        if op == '&':
            return min(a, b)
        if op in ('|', '^'):
            return (1 << max(a.bit_length(), b.bit_length())) - 1
        if op == '-':
            return tmax          # may wrap downwards; borrow handling is checked by R-CANON / not here
        if op in ('/', '%'):
            return a
        return tmax
    if k == 'cond':
        a, b = umax(e['then']), umax(e['else'])
        if a is None or b is None:
            return tmax
        return max(a, b)
    if k == 'un':
        return tmax
    if k == 'ref':
        return tmax
    return tmax


def additive_roots(fn_body):
    """top-most '+' nodes of unsigned type (not inside subscripts)"""
    idx_nodes = set()
    for n in walk(fn_body):
        if n.get('k') == 'index':
            for y in walk(n['idx']):
                idx_nodes.add(id(y))
    inner = set()
    roots = []
    for n in walk(fn_body):
        if n.get('k') == 'bin' and n.get('op') == '+' and id(n) not in idx_nodes:
            t = n.get('t') or {}
            if t.get('k') != 'int' or t.get('signed') or t.get('size', 0) < 4:
                continue
            if id(n) in inner:
                continue
            roots.append(n)
            stack = [n['lhs'], n['rhs']]
            while stack:
                x = stack.pop()
                while isinstance(x, dict) and x.get('k') == 'cast' and bits_of(x.get('t')) == bits_of(x['e'].get('t')):
                    x = x['e']
                if isinstance(x, dict) and x.get('k') == 'bin' and x.get('op') == '+':
                    inner.add(id(x))
                    stack += [x['lhs'], x['rhs']]
    return roots


def addends(n):
    out = []
    stack = [n]
    while stack:
        x = stack.pop()
        y = x
        while isinstance(y, dict) and y.get('k') in ('cast', 'load'):
            y = y['e']
        if isinstance(y, dict) and y.get('k') == 'bin' and y.get('op') == '+':
            stack += [y['lhs'], y['rhs']]
        else:
            out.append(pr.norm_obj(pr.canon(x)))
    return out


def rule_nowrap(ctx, cfg, prog, rule='R-NOWRAP'):
    sites = wrapping = 0
    for f in prog.functions.values():
        if 'body' not in f or not f['l'][0].startswith('include/core/') or '/arch/' in f['l'][0]:
            continue
        _CONST_INITS.clear()
        for x in walk(f['body']):
            if x.get('k') == 'decl':
                for v in x['vars']:
                    t_ = v.get('t') or {}
                    if t_.get('const') and t_.get('k') in ('int', 'enum', 'bool') and v.get('init') is not None and v.get('id') is not None:
                        _CONST_INITS[v['id']] = v['init']
        compares0 = []
        for x in walk(f['body']):
            if x.get('k') == 'bin' and x.get('op') in ('<', '<=', '>', '>='):
                compares0.append((pr.norm_obj(pr.canon(x['lhs'])), pr.norm_obj(pr.canon(x['rhs']))))
        # multi-word subtraction: the borrow-out must be observed (result compared with the minuend)
        local_init = {}
        for x in walk(f['body']):
            if x.get('k') == 'decl':
                for v in x['vars']:
                    if v.get('init') is not None and v.get('id') is not None:
                        local_init['L%d' % v['id']] = pr.norm_obj(pr.canon(v['init']))
        for x in walk(f['body']):
            if x.get('k') != 'assign' or x.get('op') != '=':
                continue
            dest = pr.norm_obj(pr.canon(x['lhs']))
            if '.words[' not in dest and '.dwords[' not in dest:
                continue
            r = x['rhs']
            while isinstance(r, dict) and r.get('k') in ('cast', 'load') and bits_of(r.get('t')) == bits_of(r['e'].get('t')):
                r = r['e']
            if not (isinstance(r, dict) and r.get('k') == 'bin' and r.get('op') == '-'):
                continue
            t = r.get('t') or {}
            if t.get('k') != 'int' or t.get('signed'):
                continue
            # left-most operand of the subtraction chain is the minuend
            m = r
            while isinstance(m, dict) and m.get('k') == 'bin' and m.get('op') == '-':
                m = m['lhs']
            minuend = pr.norm_obj(pr.canon(m))
            alias = {minuend} | {k for k, v in local_init.items() if v == minuend}
            sites += 1
            wrapping += 1
            observed = any((a == dest and b in alias) or (b == dest and a in alias) for (a, b) in compares0)
            ctx.ob(rule, observed, 'nowrap|borrow|%s|%s' % (strip_tmpl(f['qn']), dest), loc_str(x),
                   '%s: the multi-word subtraction at %s can wrap and its borrow-out is not observed (the result %s is never compared with '
                   'the minuend %s)' % (f['qn'], loc_str(x), dest, minuend), cfg=cfg,
                   sample=dict(config=cfg, site=loc_str(x), function=f['qn'][-60:], verdict='may wrap; borrow observed via comparison with the minuend'))
        roots = additive_roots(f['body'])
        if not roots:
            continue
        # statements storing each root
        stores = {}
        for x in walk(f['body']):
            if x.get('k') == 'assign':
                for r in roots:
                    if any(y is r for y in walk(x['rhs'])):
                        stores[id(r)] = pr.norm_obj(pr.canon(x['lhs']))
            if x.get('k') == 'decl':
                for v in x['vars']:
                    if v.get('init') is not None:
                        for r in roots:
                            if any(y is r for y in walk(v['init'])):
                                stores[id(r)] = 'L%d' % v['id']
        compares = []
        for x in walk(f['body']):
            if x.get('k') == 'bin' and x.get('op') in ('<', '<=', '>', '>='):
                compares.append((pr.norm_obj(pr.canon(x['lhs'])), pr.norm_obj(pr.canon(x['rhs']))))
        for r in roots:
            sites += 1
            t = r.get('t') or {}
            bound = umax(r)
            tmax = (1 << bits_of(t)) - 1
            if bound is not None and bound <= tmax:
                ctx.ob(rule, True, '', '', '', cfg=cfg,
                       sample=dict(config=cfg, site=loc_str(r), function=f['qn'][-60:], type=t.get('s'), upper_bound_bits=bound.bit_length(),
                                   verdict='cannot wrap'))
                continue
            wrapping += 1
            dest = stores.get(id(r))
            ads = addends(r)
            observed = dest is not None and any((a == dest and b in ads) or (b == dest and a in ads) for (a, b) in compares)
            # a sum that is immediately narrowed on purpose (index arithmetic etc.) is not multi-precision arithmetic
            ctx.ob(rule, observed, 'nowrap|%s|%s' % (strip_tmpl(f['qn']), dest or loc_str(r).split(':')[-1]), loc_str(r),
                   '%s: the %d-bit addition at %s can wrap (operands up to %d bits) and its carry-out is not observed: the result %s is never '
                   'compared with an addend (%s); a carry into the next word is silently dropped' % (
                       f['qn'], bits_of(t), loc_str(r), bound.bit_length() if bound else 0, dest, ads), cfg=cfg,
                   sample=dict(config=cfg, site=loc_str(r), function=f['qn'][-60:], type=t.get('s'), verdict='may wrap; carry observed via comparison'))
    ctx.count('unsigned_additions[%s]' % cfg, sites)
    ctx.count('additions_that_may_wrap[%s]' % cfg, wrapping)
    return sites
