// Analysis-only instantiation driver (never compiled into anything): gives the alias-capable public members of
// the class templates a body even if no library translation unit calls them, so that R-ALIAS covers every
// operation of the interface rather than only the ones the library happens to use.  Only members that are
// meaningful for the width are instantiated (square/multiply of half-width operands are not).
#include "core/bigint.hpp"
#include "core/fp.hpp"
#include "core/fp_utils.hpp"
#include "bls12_381/fq.hpp"
#include "bls12_381/fr.hpp"
#include "bls12_381/fq2.hpp"
#include "bls12_381/fq6.hpp"
#include "bls12_381/fq12.hpp"
#include "bls12_381/curve.hpp"
#include "bls12_381/wnaf.hpp"
#include "bls12_381/pairing.hpp"

namespace embedded_pairing::core {
    template bool BigInt<64>::add(const BigInt<64>&, const BigInt<64>& __restrict);
    template bool BigInt<64>::subtract(const BigInt<64>&, const BigInt<64>& __restrict);
    template BigInt<64>::word_t BigInt<64>::shift_right(const BigInt<64>&, unsigned int);
    template BigInt<64>::word_t BigInt<64>::shift_left(const BigInt<64>&, unsigned int);
    template BigInt<64>::word_t BigInt<64>::shift_right_in_word<1>(const BigInt<64>&);
    template BigInt<64>::word_t BigInt<64>::shift_left_in_word<1>(const BigInt<64>&);
    template void BigInt<64>::copy<64>(const BigInt<64>&);
    template void BigInt<64>::reverse_endianness(void);
    template bool BigInt<128>::add(const BigInt<128>&, const BigInt<128>& __restrict);
    template bool BigInt<128>::subtract(const BigInt<128>&, const BigInt<128>& __restrict);
    template BigInt<128>::word_t BigInt<128>::shift_right(const BigInt<128>&, unsigned int);
    template BigInt<128>::word_t BigInt<128>::shift_left(const BigInt<128>&, unsigned int);
    template BigInt<128>::word_t BigInt<128>::shift_right_in_word<1>(const BigInt<128>&);
    template BigInt<128>::word_t BigInt<128>::shift_left_in_word<1>(const BigInt<128>&);
    template void BigInt<128>::copy<128>(const BigInt<128>&);
    template void BigInt<128>::reverse_endianness(void);
    template bool BigInt<192>::add(const BigInt<192>&, const BigInt<192>& __restrict);
    template bool BigInt<192>::subtract(const BigInt<192>&, const BigInt<192>& __restrict);
    template BigInt<192>::word_t BigInt<192>::shift_right(const BigInt<192>&, unsigned int);
    template BigInt<192>::word_t BigInt<192>::shift_left(const BigInt<192>&, unsigned int);
    template BigInt<192>::word_t BigInt<192>::shift_right_in_word<1>(const BigInt<192>&);
    template BigInt<192>::word_t BigInt<192>::shift_left_in_word<1>(const BigInt<192>&);
    template void BigInt<192>::copy<192>(const BigInt<192>&);
    template void BigInt<192>::reverse_endianness(void);
    template bool BigInt<256>::add(const BigInt<256>&, const BigInt<256>& __restrict);
    template bool BigInt<256>::subtract(const BigInt<256>&, const BigInt<256>& __restrict);
    template BigInt<256>::word_t BigInt<256>::shift_right(const BigInt<256>&, unsigned int);
    template BigInt<256>::word_t BigInt<256>::shift_left(const BigInt<256>&, unsigned int);
    template BigInt<256>::word_t BigInt<256>::shift_right_in_word<1>(const BigInt<256>&);
    template BigInt<256>::word_t BigInt<256>::shift_left_in_word<1>(const BigInt<256>&);
    template void BigInt<256>::copy<256>(const BigInt<256>&);
    template void BigInt<256>::reverse_endianness(void);
    template bool BigInt<384>::add(const BigInt<384>&, const BigInt<384>& __restrict);
    template bool BigInt<384>::subtract(const BigInt<384>&, const BigInt<384>& __restrict);
    template BigInt<384>::word_t BigInt<384>::shift_right(const BigInt<384>&, unsigned int);
    template BigInt<384>::word_t BigInt<384>::shift_left(const BigInt<384>&, unsigned int);
    template BigInt<384>::word_t BigInt<384>::shift_right_in_word<1>(const BigInt<384>&);
    template BigInt<384>::word_t BigInt<384>::shift_left_in_word<1>(const BigInt<384>&);
    template void BigInt<384>::copy<384>(const BigInt<384>&);
    template void BigInt<384>::reverse_endianness(void);
    template bool BigInt<512>::add(const BigInt<512>&, const BigInt<512>& __restrict);
    template bool BigInt<512>::subtract(const BigInt<512>&, const BigInt<512>& __restrict);
    template BigInt<512>::word_t BigInt<512>::shift_right(const BigInt<512>&, unsigned int);
    template BigInt<512>::word_t BigInt<512>::shift_left(const BigInt<512>&, unsigned int);
    template BigInt<512>::word_t BigInt<512>::shift_right_in_word<1>(const BigInt<512>&);
    template BigInt<512>::word_t BigInt<512>::shift_left_in_word<1>(const BigInt<512>&);
    template void BigInt<512>::copy<512>(const BigInt<512>&);
    template void BigInt<512>::reverse_endianness(void);
    template bool BigInt<768>::add(const BigInt<768>&, const BigInt<768>& __restrict);
    template bool BigInt<768>::subtract(const BigInt<768>&, const BigInt<768>& __restrict);
    template BigInt<768>::word_t BigInt<768>::shift_right(const BigInt<768>&, unsigned int);
    template BigInt<768>::word_t BigInt<768>::shift_left(const BigInt<768>&, unsigned int);
    template BigInt<768>::word_t BigInt<768>::shift_right_in_word<1>(const BigInt<768>&);
    template BigInt<768>::word_t BigInt<768>::shift_left_in_word<1>(const BigInt<768>&);
    template void BigInt<768>::copy<768>(const BigInt<768>&);
    template void BigInt<768>::reverse_endianness(void);
    template struct FpBase<256>;
    template struct FpBase<384>;
}
namespace embedded_pairing::bls12_381 {
    template struct Projective<Fq>;
    template struct Projective<Fq2>;
    template struct Affine<Fq, Fr, g1_b_coeff_var>;
    template struct Affine<Fq2, Fr, g2_b_coeff_var>;
}
