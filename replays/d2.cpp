#include "common.hpp"
int main() {
  int accepted = 0, tried = 0, same = 0;
  for (int it = 0; it < 200; it++) {
    G1 p; p.random_generator(rnd); G1Affine pa; pa.from_projective(p);
    G1Compressed enc; enc.encode(pa);
    // x (big-endian, flags in top 3 bits of byte 0) -> x + q if it still fits in 381 bits
    BigInt<384> x; x.read_big_endian(enc.data); uint8_t flags = enc.data[0] & 0xE0; x.bytes[47] &= 0x1F;
    BigInt<384> xq; bool carry = xq.add(x, fq_modulus);
    if (carry || (xq.bytes[47] & 0xE0)) continue;
    tried++;
    G1Compressed enc2; xq.write_big_endian(enc2.data); enc2.data[0] |= flags;
    if (memcmp(enc.data, enc2.data, sizeof(enc.data)) == 0) { printf("?? identical\n"); }
    G1Affine out; bool ok = enc2.decode(out, true);
    if (ok) { accepted++; if (G1Affine::equal(out, pa)) same++; }
  }
  printf("D2 compressed G1: non-canonical x+q encodings tried=%d accepted_by_checked_decode=%d decode_to_same_point=%d\n", tried, accepted, same);
  // uncompressed: set top bits of y's first byte
  G1 p; p.random_generator(rnd); G1Affine pa; pa.from_projective(p);
  G1Uncompressed u; u.encode(pa); G1Uncompressed u2 = u; u2.data[48] |= 0xE0;
  G1Affine o; bool ok = u2.decode(o, true);
  printf("D2 uncompressed G1 with y top bits set: accepted=%d same=%d\n", (int)ok, (int)G1Affine::equal(o, pa));
  // G2 compressed: c1 + q
  G2 g; G2Affine ga; int t2=0,a2=0;
  for (int it = 0; it < 100; it++) { g.random_generator(rnd); ga.from_projective(g); G2Compressed e; e.encode(ga);
    BigInt<384> x; x.read_big_endian(&e.data[48]); BigInt<384> xq; if (xq.add(x, fq_modulus) || (xq.bytes[47] & 0xE0)) continue; t2++;
    G2Compressed e2 = e; xq.write_big_endian(&e2.data[48]); G2Affine o2; if (e2.decode(o2, true) && G2Affine::equal(o2, ga)) a2++; }
  printf("D2 compressed G2 (c0+q): tried=%d accepted_same=%d\n", t2, a2);
}
