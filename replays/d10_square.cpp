// D10 (C03): the baseline (non-BMI2) x86-64 assembly square drops the carry out of the doubling of the off-diagonal
// products: for operands whose two top words are large the 768-bit square is wrong, while the BMI2/ADX routine and the
// portable C++ square are right.  Triage replay only (never part of a check).
#include <stdio.h>
#include <stdint.h>
#include <string.h>
extern "C" {
    void embedded_pairing_core_arch_x86_64_bigint_768_square(void* res, const void* a);
    void embedded_pairing_core_arch_x86_64_bmi2_adx_bigint_768_square(void* res, const void* a);
    void embedded_pairing_core_arch_x86_64_bigint_768_multiply(void* res, const void* a, const void* b);
    bool embedded_pairing_core_arch_x86_64_cpu_supports_bmi2_adx(void);
}
typedef unsigned __int128 u128;
static void ref_square(uint64_t r[12], const uint64_t a[6]) {      // schoolbook, independent of the library
    memset(r, 0, 96);
    for (int i = 0; i < 6; i++) {
        uint64_t carry = 0;
        for (int j = 0; j < 6; j++) {
            u128 t = (u128) a[i] * a[j] + r[i + j] + carry;
            r[i + j] = (uint64_t) t;
            carry = (uint64_t) (t >> 64);
        }
        r[i + 6] = carry;
    }
}
static int run(const char* what, const uint64_t a[6]) {
    uint64_t want[12], got[12], gotm[12], gotb[12];
    ref_square(want, a);
    embedded_pairing_core_arch_x86_64_bigint_768_square(got, a);
    embedded_pairing_core_arch_x86_64_bigint_768_multiply(gotm, a, a);
    int bad = memcmp(want, got, 96) != 0;
    int badm = memcmp(want, gotm, 96) != 0;
    int badb = 0;
    if (embedded_pairing_core_arch_x86_64_cpu_supports_bmi2_adx()) {
        embedded_pairing_core_arch_x86_64_bmi2_adx_bigint_768_square(gotb, a);
        badb = memcmp(want, gotb, 96) != 0;
    }
    printf("%-34s baseline square %s  baseline multiply(a,a) %s  bmi2 square %s\n", what, bad ? "WRONG" : "ok", badm ? "WRONG" : "ok", badb ? "WRONG" : "ok");
    if (bad) {
        printf("    top word want %016llx got %016llx\n", (unsigned long long) want[11], (unsigned long long) got[11]);
    }
    return bad;
}
int main() {
    uint64_t allones[6] = {~0ull, ~0ull, ~0ull, ~0ull, ~0ull, ~0ull};
    uint64_t top2[6] = {1, 2, 3, 4, 0xc000000000000000ull, 0xc000000000000000ull};
    uint64_t q[6] = {0xb9feffffffffaaabull, 0x1eabfffeb153ffffull, 0x6730d2a0f6b0f624ull, 0x64774b84f38512bfull, 0x4b1ba7b6434bacd7ull, 0x1a0111ea397fe69aull};
    uint64_t qm1[6]; memcpy(qm1, q, 48); qm1[0] -= 1;
    int bad = 0;
    bad += run("a = 2^384 - 1", allones);
    bad += run("a with two top words 0xc000..", top2);
    int badq = run("a = q - 1 (largest field element)", qm1);
    printf("D10 %s: the baseline x86-64 square %s for 384-bit operands outside the field range; field operands (< q < 2^381) %s\n",
           bad ? "REPRODUCED" : "not reproduced", bad ? "is wrong" : "is right", badq ? "ALSO wrong" : "are unaffected");
    return 0;
}
