#include "common.hpp"
using namespace embedded_pairing;
int main() {
  const int L = 3;
  wkdibe::Params params; wkdibe::MasterKey msk; G1 h[L]; params.h = h;
  wkdibe::setup(params, msk, L, false, rnd);
  wkdibe::AttributeList al; al.attrs = nullptr; al.length = 0; al.omitAllFromKeysUnlessPresent = false;
  wkdibe::SecretKey sk; wkdibe::FreeSlot b[L]; sk.b = b;
  wkdibe::keygen(sk, params, msk, al, rnd);
  size_t len = sk.getMarshalledLength<true>();
  alignas(16) uint8_t buf[4096];
  printf("D1 sk.l=%d marshalled length=%zu buf%%16=%zu\n", sk.l, len, (size_t)((uintptr_t)buf % 16));
  sk.marshal<true>(buf);
  wkdibe::SecretKey sk2; wkdibe::FreeSlot b2[L]; sk2.b = b2;
  int l2 = sk2.setLength<true>(buf, len);
  bool ok = sk2.unmarshal<true>(buf, true);
  printf("   unmarshal l=%d ok=%d idx0=%u idx2=%u\n", l2, (int)ok, sk2.b[0].idx, sk2.b[2].idx);
}
