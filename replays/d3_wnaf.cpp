#include "common.hpp"
int main() {
  G1 p; p.random_generator(rnd);
  // k = 2^128 - 1 via the 128-bit entry point (wnaf) vs double-and-add
  BigInt<128> k; memset(&k, 0xff, sizeof(k)); k.bytes[0] = 0xff;
  for (int t = 0; t < 2; t++) {
    if (t == 1) { k.bytes[0] = 0xf1; } // 2^128 - 15
    G1 a, b;
    a.multiply(p, k);               // G1::multiply<ArgType>(base, BigInt<128>) -> wnaf
    b.multiply_doubleadd(p, k);
    printf("D3 k=2^128-%d: wnaf==doubleadd ? %d\n", t==0?1:15, (int)G1::equal(a, b));
    G1 negp, m1; negp.negate(p);
    BigInt<128> one = {.std_words = {1,0,0,0}};
    printf("   wnaf result == -P ? %d\n", (int)G1::equal(a, negp));
  }
  // 256-bit wnaf directly
  BigInt<256> k2; memset(&k2, 0xff, sizeof(k2));
  G1 a, b; a.multiply_wnaf(p, k2); b.multiply_doubleadd(p, k2);
  printf("D3 k=2^256-1 multiply_wnaf==doubleadd ? %d\n", (int)G1::equal(a, b));
  // control
  BigInt<128> k3; rnd(&k3, sizeof(k3)); k3.bytes[15] &= 0x7f;
  a.multiply(p, k3); b.multiply_doubleadd(p, k3);
  printf("control random 127-bit: %d\n", (int)G1::equal(a, b));
}
