#!/bin/bash
# One-off concrete replays used to TRIAGE what the static rules report on the
# unchanged tree (DESIGN.md section 6). NOT part of any registered check: no
# quick_cmd/thorough_cmd calls this. Builds a scratch copy of /repo under
# $SCRATCH (default /tmp/jp-replay), runs the replays, removes the scratch copy.
set -e
SCRATCH=${SCRATCH:-/tmp/jp-replay}
HERE=$(cd "$(dirname "$0")" && pwd)
rm -rf "$SCRATCH"; mkdir -p "$SCRATCH"
rsync -a --exclude .git --exclude bin --exclude "*.a" --exclude tests "${SRC:-/repo}/" "$SCRATCH/src/"
build() { # build <name> <flags...>
  local out="$SCRATCH/$1"; shift; mkdir -p "$out"
  ( cd "$SCRATCH/src" && ls src/bls12_381/*.cpp src/wkdibe/*.cpp src/lqibe/*.cpp src/core/arch/x86_64/*.cpp |
    xargs -P16 -I{} sh -c 'clang++ -std=c++17 -I./include '"$*"' -c {} -o '"$out"'/$(echo {} | tr / _).o' &&
    for s in src/core/arch/x86_64/*.s; do as $s -o "$out/$(echo $s | tr / _).o"; done )
  ar rcs "$out/pairing.a" "$out"/*.o
}
cxx() { clang++ -std=c++17 -I"$SCRATCH/src/include" -I"$HERE" "$@" 2>/dev/null; }
build asm -O1
build port0 -O0 -DDISABLE_ASM
build portfast -Ofast -fno-vectorize -DDISABLE_ASM
cd "$SCRATCH"
echo "### D3 (C06) wNAF add-back carry";            cxx -O1 "$HERE/d3_wnaf.cpp" asm/pairing.a -o d3 && ./d3
echo "### D4,D5 (C18) in-place Fq6::multiply / BigInt shifts; D6 at -O1 asm"; cxx -O1 "$HERE/d456.cpp" asm/pairing.a -o d456 && ./d456
echo "### D6 (C18) C API g?_add result==b, portable -O0"; cxx -O0 -DDISABLE_ASM "$HERE/d456.cpp" port0/pairing.a -o d456p0 && ./d456p0 | grep -E 'D6|Fq::add'
echo "### D6 portable -Ofast (Makefile flags): masked by __restrict load reuse"; cxx -Ofast -fno-vectorize -DDISABLE_ASM "$HERE/d456.cpp" portfast/pairing.a -o d456pf && ./d456pf | grep -E 'D6|Fq::add'
echo "### D2 (C09) non-canonical encodings accepted by validating decode"; cxx -O1 "$HERE/d2.cpp" asm/pairing.a -o d2 && ./d2
echo "### D1 (C17) misaligned FreeSlotMarshalled::idx under UBSan"
clang++ -std=c++17 -I"$SCRATCH/src/include" -O1 -g -fsanitize=alignment -c "$SCRATCH/src/src/wkdibe/marshal.cpp" -o marshal_ubsan.o
cxx -O1 -g -fsanitize=alignment "$HERE/d1.cpp" marshal_ubsan.o asm/pairing.a -o d1 && ./d1 2>&1 | grep -E 'runtime error|D1|unmarshal' | cut -c1-200 | sort | uniq -c | head
echo "### D7,D8,D9 (C11/C12/C17) hidden attributes in key derivation"; cxx -O1 "$HERE/d789.cpp" asm/pairing.a -o d789 && ./d789
cd /; rm -rf "$SCRATCH"
