#include "common.hpp"
using namespace embedded_pairing;
using wkdibe::Attribute; using wkdibe::AttributeList;
static const int L = 4;
static void show(const char* name, wkdibe::SecretKey& sk) { printf("%s: l=%d free=[", name, sk.l); for (int i = 0; i < sk.l && i < 8; i++) printf("%u ", sk.b[i].idx); printf("]\n"); }
int main() {
  wkdibe::Params params; wkdibe::MasterKey msk; G1 h[L]; params.h = h;
  wkdibe::setup(params, msk, L, false, rnd);
  Attribute hid_then_fixed[2]; memset(hid_then_fixed, 0, sizeof(hid_then_fixed));
  hid_then_fixed[0].idx = 0; hid_then_fixed[0].omitFromKeys = true;
  hid_then_fixed[1].idx = 1; hid_then_fixed[1].omitFromKeys = false; rnd(&hid_then_fixed[1].id, 32); hid_then_fixed[1].id.bytes[31] &= 0x3f;
  AttributeList al_h = { hid_then_fixed, 2, false };
  Attribute fixed_only[1]; fixed_only[0] = hid_then_fixed[1];
  AttributeList al_ct = { fixed_only, 1, false };   // ciphertext pattern: slot 1 = v
  AttributeList al_none = { nullptr, 0, false };
  wkdibe::GT msg; wkdibe::random_gt(msg, rnd);
  wkdibe::Ciphertext ct; wkdibe::encrypt(ct, msg, params, al_ct, rnd);
  wkdibe::GT out;

  // reference: keygen (delegable) with the same list -- the sibling that handles hidden slots
  wkdibe::SecretKey k0; wkdibe::FreeSlot b0[8]; k0.b = b0; wkdibe::keygen(k0, params, msk, al_h, rnd);
  show("keygen{0:hidden,1:v}            ", k0); wkdibe::decrypt(out, ct, k0); printf("   decrypts ct{1:v}? %d\n", (int)wkdibe::GT::equal(out, msg));
  // D7
  wkdibe::SecretKey k1; wkdibe::FreeSlot b1[8]; k1.b = b1; wkdibe::nondelegable_keygen(k1, params, msk, al_h);
  show("D7 nondelegable_keygen same list", k1); wkdibe::decrypt(out, ct, k1); printf("   decrypts ct{1:v}? %d   (Go allocates l-len(attrs)=%d slots)\n", (int)wkdibe::GT::equal(out, msg), L-2);
  // parent with everything free
  wkdibe::SecretKey par; wkdibe::FreeSlot bp[8]; par.b = bp; wkdibe::keygen(par, params, msk, al_none, rnd); show("parent keygen{}                 ", par);
  // D8
  wkdibe::SecretKey k2; wkdibe::FreeSlot b2[8]; k2.b = b2; wkdibe::qualifykey(k2, params, par, al_h, rnd);
  show("D8 qualifykey(parent,{0:hidden,1:v})", k2); wkdibe::decrypt(out, ct, k2); printf("   decrypts ct{1:v}? %d\n", (int)wkdibe::GT::equal(out, msg));
  // control: qualify without hidden
  wkdibe::SecretKey k2c; wkdibe::FreeSlot b2c[8]; k2c.b = b2c; wkdibe::qualifykey(k2c, params, par, al_ct, rnd);
  show("   control qualifykey(parent,{1:v})", k2c); wkdibe::decrypt(out, ct, k2c); printf("   decrypts ct{1:v}? %d\n", (int)wkdibe::GT::equal(out, msg));
  // D9
  wkdibe::SecretKey k3; wkdibe::FreeSlot b3[8]; k3.b = b3; wkdibe::nondelegable_qualifykey(k3, params, par, al_h);
  show("D9 nondelegable_qualifykey(parent,{0:hidden,1:v})", k3); wkdibe::decrypt(out, ct, k3); printf("   decrypts ct{1:v}? %d\n", (int)wkdibe::GT::equal(out, msg));
  wkdibe::SecretKey k3c; wkdibe::FreeSlot b3c[8]; k3c.b = b3c; wkdibe::nondelegable_qualifykey(k3c, params, par, al_ct);
  show("   control nondelegable_qualifykey(parent,{1:v})", k3c); wkdibe::decrypt(out, ct, k3c); printf("   decrypts ct{1:v}? %d\n", (int)wkdibe::GT::equal(out, msg));
}
