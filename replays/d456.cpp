#include "common.hpp"
int main() {
  // D4: Fq6::multiply with out == b
  Fq6 x, y, z; x.random(rnd); y.random(rnd);
  z.multiply(y, x);
  Fq6 x2 = x; x2.multiply(y, x2);
  Fq6 y2 = y; y2.multiply(y2, x);
  printf("D4 Fq6: out==b equal to fresh? %d ; out==a equal to fresh? %d\n", (int)Fq6::equal(z, x2), (int)Fq6::equal(z, y2));
  // Fq2 / Fq12 controls
  Fq12 p, q, r; p.random(rnd); q.random(rnd); r.multiply(p, q); Fq12 q2 = q; q2.multiply(p, q2); Fq12 p2 = p; p2.multiply(p2, q);
  printf("   Fq12: out==b %d out==a %d\n", (int)Fq12::equal(r, q2), (int)Fq12::equal(r, p2));
  // D5: BigInt shift in place
  BigInt<256> a, b, c; rnd(&a, sizeof(a));
  b.shift_right(a, 64); c = a; c.shift_right(c, 64);
  printf("D5 shift_right 64 in place equal? %d\n", (int)BigInt<256>::equal(b, c));
  b.shift_left(a, 64); c = a; c.shift_left(c, 64);
  printf("D5 shift_left 64 in place equal? %d\n", (int)BigInt<256>::equal(b, c));
  b.shift_right(a, 13); c = a; c.shift_right(c, 13);
  printf("   shift_right 13 in place equal? %d\n", (int)BigInt<256>::equal(b, c));
  // D6: C API g1_add with result == b
  G1 P, Q; P.random_generator(rnd); Q.random_generator(rnd);
  embedded_pairing_bls12_381_g1_t r1, r2;
  memcpy(&r2, &Q, sizeof(Q));
  embedded_pairing_bls12_381_g1_add(&r1, (embedded_pairing_bls12_381_g1_t*)&P, (embedded_pairing_bls12_381_g1_t*)&Q);
  embedded_pairing_bls12_381_g1_add(&r2, (embedded_pairing_bls12_381_g1_t*)&P, &r2);
  printf("D6 g1_add result==b equal to fresh? %d\n", (int)embedded_pairing_bls12_381_g1_equal(&r1, &r2));
  embedded_pairing_bls12_381_g1_t r3; memcpy(&r3, &P, sizeof(P));
  embedded_pairing_bls12_381_g1_add(&r3, &r3, (embedded_pairing_bls12_381_g1_t*)&Q);
  printf("   g1_add result==a equal to fresh? %d\n", (int)embedded_pairing_bls12_381_g1_equal(&r1, &r3));
  G2 P2, Q2; P2.random_generator(rnd); Q2.random_generator(rnd);
  embedded_pairing_bls12_381_g2_t s1, s2; memcpy(&s2, &Q2, sizeof(Q2));
  embedded_pairing_bls12_381_g2_add(&s1, (embedded_pairing_bls12_381_g2_t*)&P2, (embedded_pairing_bls12_381_g2_t*)&Q2);
  embedded_pairing_bls12_381_g2_add(&s2, (embedded_pairing_bls12_381_g2_t*)&P2, &s2);
  printf("D6 g2_add result==b equal to fresh? %d\n", (int)embedded_pairing_bls12_381_g2_equal(&s1, &s2));
  // Fq-level: x.add(y, x) (b is __restrict at this level; shown for the mechanism)
  Fq u, v, w; u.random(rnd); v.random(rnd); w.add(u, v); Fq v2 = v; v2.add(u, v2);
  printf("   Fq::add out==b (restrict) equal? %d\n", (int)Fq::equal(w, v2));
}
