#include <stdio.h>
#include <string.h>
#include <stdint.h>
#include <stdlib.h>
#include "bls12_381/bls12_381.h"
#include "bls12_381/curve.hpp"
#include "bls12_381/pairing.hpp"
#include "bls12_381/wnaf.hpp"
#include "wkdibe/api.hpp"
using namespace embedded_pairing::bls12_381;
using embedded_pairing::core::BigInt;
static uint64_t st = 0x9e3779b97f4a7c15ull;
static void rnd(void* b, size_t n) { uint8_t* p = (uint8_t*)b; for (size_t i = 0; i < n; i++) { st ^= st << 13; st ^= st >> 7; st ^= st << 17; p[i] = (uint8_t)(st >> 32); } }
