// jpir: effect facts from one LLVM IR module (E2).  Reads a .ll/.bc file (never executes anything) and prints
// JSON: globals, per-function memory-write destinations classified by the root of the pointer, indirect calls,
// references to external symbols, static-initialisation entry points.
//
// usage: jpir <module.ll|bc> > facts.json
#include "llvm/IR/Constants.h"
#include "llvm/IR/DebugInfoMetadata.h"
#include "llvm/IR/Function.h"
#include "llvm/IR/GlobalVariable.h"
#include "llvm/IR/InstIterator.h"
#include "llvm/IR/Instructions.h"
#include "llvm/IR/IntrinsicInst.h"
#include "llvm/IR/LLVMContext.h"
#include "llvm/IR/Module.h"
#include "llvm/IR/Operator.h"
#include "llvm/IRReader/IRReader.h"
#include "llvm/Support/JSON.h"
#include "llvm/Support/SourceMgr.h"
#include "llvm/Support/raw_ostream.h"
#include <set>
#include <string>

using namespace llvm;
namespace json = llvm::json;

namespace {

struct Root {
  std::string kind; // stack | arg | global | loaded:<inner> | call | null | const | unknown
  std::string name;
  bool operator<(const Root &o) const { return std::tie(kind, name) < std::tie(o.kind, o.name); }
};

void roots(const Value *V, std::set<Root> &Out, std::set<const Value *> &Seen, int Depth) {
  if (!Seen.insert(V).second) return;
  if (Depth > 64) { Out.insert({"unknown", "depth"}); return; }
  V = V->stripPointerCasts();
  if (const auto *GEP = dyn_cast<GEPOperator>(V)) { roots(GEP->getPointerOperand(), Out, Seen, Depth + 1); return; }
  if (isa<AllocaInst>(V)) { Out.insert({"stack", ""}); return; }
  if (const auto *A = dyn_cast<Argument>(V)) { Out.insert({"arg", A->getName().str()}); return; }
  if (const auto *G = dyn_cast<GlobalVariable>(V)) { Out.insert({"global", G->getName().str()}); return; }
  if (const auto *F = dyn_cast<Function>(V)) { Out.insert({"function", F->getName().str()}); return; }
  if (const auto *GA = dyn_cast<GlobalAlias>(V)) { roots(GA->getAliasee(), Out, Seen, Depth + 1); return; }
  if (isa<ConstantPointerNull>(V)) { Out.insert({"null", ""}); return; }
  if (isa<UndefValue>(V)) { Out.insert({"undef", ""}); return; }
  if (const auto *P = dyn_cast<PHINode>(V)) {
    for (const Value *In : P->incoming_values()) roots(In, Out, Seen, Depth + 1);
    return;
  }
  if (const auto *S = dyn_cast<SelectInst>(V)) {
    roots(S->getTrueValue(), Out, Seen, Depth + 1);
    roots(S->getFalseValue(), Out, Seen, Depth + 1);
    return;
  }
  if (const auto *L = dyn_cast<LoadInst>(V)) {
    std::set<Root> Inner;
    std::set<const Value *> S2;
    roots(L->getPointerOperand(), Inner, S2, Depth + 1);
    for (const Root &R : Inner) {
      std::string K = R.kind;
      // collapse nested loads: loaded from (something reachable from X) is still reachable from X
      if (K.rfind("loaded:", 0) == 0) Out.insert({K, R.name});
      else Out.insert({"loaded:" + K, R.name});
    }
    return;
  }
  if (const auto *CE = dyn_cast<ConstantExpr>(V)) {
    if (CE->getOpcode() == Instruction::IntToPtr) { Out.insert({"inttoptr", ""}); return; }
    if (CE->getNumOperands() > 0) { roots(CE->getOperand(0), Out, Seen, Depth + 1); return; }
  }
  if (const auto *C = dyn_cast<CallBase>(V)) {
    std::string N = C->getCalledFunction() ? C->getCalledFunction()->getName().str() : "<indirect>";
    Out.insert({"call", N});
    return;
  }
  if (isa<IntToPtrInst>(V)) { Out.insert({"inttoptr", ""}); return; }
  if (const auto *EV = dyn_cast<ExtractValueInst>(V)) { roots(EV->getAggregateOperand(), Out, Seen, Depth + 1); return; }
  Out.insert({"unknown", V->getName().str()});
}

json::Array rootsJson(const Value *V) {
  std::set<Root> R;
  std::set<const Value *> Seen;
  roots(V, R, Seen, 0);
  json::Array A;
  for (const Root &X : R) A.push_back(json::Object{{"kind", X.kind}, {"name", X.name}});
  return A;
}

json::Value dbg(const Instruction &I) {
  if (const DebugLoc &DL = I.getDebugLoc()) {
    std::string F = DL->getFilename().str();
    return json::Object{{"file", F}, {"line", (int64_t)DL.getLine()}};
  }
  return nullptr;
}

void collectGlobalRefs(const Value *V, std::set<std::string> &Out, std::set<const Value *> &Seen) {
  if (!Seen.insert(V).second) return;
  if (const auto *GV = dyn_cast<GlobalValue>(V)) { Out.insert(GV->getName().str()); return; }
  if (const auto *C = dyn_cast<Constant>(V))
    for (const Use &U : C->operands()) collectGlobalRefs(U.get(), Out, Seen);
}

} // namespace

int main(int argc, char **argv) {
  if (argc < 2) { errs() << "usage: jpir module.ll\n"; return 2; }
  LLVMContext Ctx;
  SMDiagnostic Err;
  std::unique_ptr<Module> M = parseIRFile(argv[1], Err, Ctx);
  if (!M) { Err.print("jpir", errs()); return 2; }

  json::Array Globals, Funcs, Ctors;
  for (const GlobalVariable &G : M->globals()) {
    json::Object O;
    O["name"] = G.getName().str();
    O["constant"] = G.isConstant();
    O["declaration"] = G.isDeclaration();
    O["linkage"] = (int64_t)G.getLinkage();
    O["internal"] = G.hasLocalLinkage();
    O["thread_local"] = G.isThreadLocal();
    O["section"] = G.getSection().str();
    if (G.hasInitializer()) {
      const Constant *I = G.getInitializer();
      O["zeroinit"] = I->isNullValue();
      std::set<std::string> Refs;
      std::set<const Value *> Seen;
      collectGlobalRefs(I, Refs, Seen);
      json::Array RA;
      for (auto &S : Refs) RA.push_back(S);
      O["init_refs"] = std::move(RA);
    }
    std::string TS;
    raw_string_ostream TOS(TS);
    G.getValueType()->print(TOS);
    O["type"] = TOS.str();
    Globals.push_back(std::move(O));
  }
  if (const GlobalVariable *GC = M->getGlobalVariable("llvm.global_ctors"))
    if (GC->hasInitializer())
      if (const auto *CA = dyn_cast<ConstantArray>(GC->getInitializer()))
        for (const Use &U : CA->operands())
          if (const auto *CS = dyn_cast<ConstantStruct>(U.get()))
            if (const auto *F = dyn_cast<Function>(CS->getOperand(1)->stripPointerCasts()))
              Ctors.push_back(F->getName().str());

  for (const Function &F : *M) {
    json::Object O;
    O["name"] = F.getName().str();
    O["declaration"] = F.isDeclaration();
    O["internal"] = F.hasLocalLinkage();
    O["section"] = F.getSection().str();
    if (F.isDeclaration()) { Funcs.push_back(std::move(O)); continue; }
    json::Array Writes, Calls, ICalls, GlobalReads;
    std::set<std::string> ReadGlobals;
    for (const Instruction &I : instructions(F)) {
      if (const auto *S = dyn_cast<StoreInst>(&I)) {
        Writes.push_back(json::Object{{"op", "store"}, {"roots", rootsJson(S->getPointerOperand())}, {"dbg", dbg(I)},
                                      {"atomic", S->isAtomic()}, {"volatile", S->isVolatile()}});
      } else if (const auto *RMW = dyn_cast<AtomicRMWInst>(&I)) {
        Writes.push_back(json::Object{{"op", "atomicrmw"}, {"roots", rootsJson(RMW->getPointerOperand())}, {"dbg", dbg(I)}});
      } else if (const auto *CX = dyn_cast<AtomicCmpXchgInst>(&I)) {
        Writes.push_back(json::Object{{"op", "cmpxchg"}, {"roots", rootsJson(CX->getPointerOperand())}, {"dbg", dbg(I)}});
      } else if (const auto *CB = dyn_cast<CallBase>(&I)) {
        if (isa<DbgInfoIntrinsic>(CB)) continue;
        const Function *Callee = CB->getCalledFunction();
        if (const auto *MI = dyn_cast<MemIntrinsic>(CB)) {
          Writes.push_back(json::Object{{"op", Callee ? Callee->getName().str() : "memintrinsic"},
                                        {"roots", rootsJson(MI->getRawDest())}, {"dbg", dbg(I)}});
          continue;
        }
        if (Callee && Callee->isIntrinsic()) {
          Calls.push_back(json::Object{{"callee", Callee->getName().str()}, {"intrinsic", true}});
          continue;
        }
        if (!Callee) {
          const Value *CV = CB->getCalledOperand()->stripPointerCasts();
          if (const auto *CF = dyn_cast<Function>(CV)) {
            Calls.push_back(json::Object{{"callee", CF->getName().str()}, {"dbg", dbg(I)}});
          } else if (isa<InlineAsm>(CV)) {
            ICalls.push_back(json::Object{{"inline_asm", true}, {"dbg", dbg(I)}});
          } else {
            ICalls.push_back(json::Object{{"roots", rootsJson(CV)}, {"dbg", dbg(I)}});
          }
        } else {
          json::Object CO{{"callee", Callee->getName().str()}, {"dbg", dbg(I)}};
          // destination pointer of libc memory writers
          StringRef N = Callee->getName();
          if ((N == "memcpy" || N == "memmove" || N == "memset") && CB->arg_size() >= 1)
            Writes.push_back(json::Object{{"op", N.str()}, {"roots", rootsJson(CB->getArgOperand(0))}, {"dbg", dbg(I)}});
          Calls.push_back(std::move(CO));
        }
      } else if (const auto *L = dyn_cast<LoadInst>(&I)) {
        if (L->isAtomic() || L->isVolatile()) {
          Writes.push_back(json::Object{{"op", "atomic-or-volatile-load"}, {"roots", rootsJson(L->getPointerOperand())}, {"dbg", dbg(I)}});
        }
      }
    }
    O["writes"] = std::move(Writes);
    O["calls"] = std::move(Calls);
    O["icalls"] = std::move(ICalls);
    Funcs.push_back(std::move(O));
  }
  json::Object Root{{"module", M->getModuleIdentifier()}, {"triple", M->getTargetTriple()},
                    {"globals", std::move(Globals)}, {"functions", std::move(Funcs)}, {"ctors", std::move(Ctors)}};
  outs() << json::Value(std::move(Root)) << "\n";
  return 0;
}
