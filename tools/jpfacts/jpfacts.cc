// jpfacts: serialises the type-checked, template-instantiated program of one
// translation unit as JSON facts (records, globals with evaluated values,
// functions with resolved bodies).  It never executes any code; all rule logic
// lives in /verif/jpv/*.py.
//
// usage: jpfacts <file.cpp> -o out.json -- <compiler flags>
#include "clang/AST/ASTConsumer.h"
#include "clang/AST/ASTContext.h"
#include "clang/AST/Mangle.h"
#include "clang/AST/RecordLayout.h"
#include "clang/AST/RecursiveASTVisitor.h"
#include "clang/Basic/TargetInfo.h"
#include "clang/Frontend/CompilerInstance.h"
#include "clang/Frontend/FrontendAction.h"
#include "clang/Tooling/CommonOptionsParser.h"
#include "clang/Tooling/Tooling.h"
#include "llvm/Support/CommandLine.h"
#include "llvm/Support/JSON.h"
#include "llvm/Support/raw_ostream.h"
#include <map>
#include <set>
#include <string>
#include <vector>

using namespace clang;
namespace json = llvm::json;

static llvm::cl::OptionCategory Cat("jpfacts");
static llvm::cl::opt<std::string> OutFile("o", llvm::cl::desc("output"), llvm::cl::cat(Cat), llvm::cl::init("-"));

namespace {

struct TypeEntry { std::string json; };

class Emitter {
public:
  ASTContext &Ctx;
  SourceManager &SM;
  std::unique_ptr<MangleContext> Mangler;
  PrintingPolicy PP;
  std::map<const void *, int> TypeIdx;            // canonical type ptr+quals -> idx
  std::vector<std::string> Types;                  // serialized
  std::map<std::string, int> TypeByKey;
  std::set<const RecordDecl *> RecordsSeen;
  std::vector<const RecordDecl *> RecordQueue;
  std::map<const Decl *, int> LocalIds;
  int NextLocal = 0;
  std::map<std::string, int> FileIdx;
  std::vector<std::string> Files;

  Emitter(ASTContext &C) : Ctx(C), SM(C.getSourceManager()), PP(C.getLangOpts()) {
    Mangler.reset(ItaniumMangleContext::create(C, C.getDiagnostics()));
    PP.SuppressTagKeyword = true;
    PP.Bool = true;
    PP.FullyQualifiedName = true;
    PP.PrintCanonicalTypes = true;
    PP.SuppressUnwrittenScope = false;
  }

  std::string typeStr(QualType T) {
    std::string S;
    llvm::raw_string_ostream OS(S);
    T.getCanonicalType().print(OS, PP);
    return OS.str();
  }

  int fileIndex(const std::string &F) {
    auto It = FileIdx.find(F);
    if (It != FileIdx.end()) return It->second;
    int I = Files.size();
    Files.push_back(F);
    FileIdx[F] = I;
    return I;
  }

  json::Value loc(SourceLocation L) {
    if (L.isInvalid()) return nullptr;
    SourceLocation E = SM.getExpansionLoc(L);
    PresumedLoc P = SM.getPresumedLoc(E);
    if (P.isInvalid()) return nullptr;
    return json::Array{fileIndex(P.getFilename()), (int64_t)P.getLine(), (int64_t)P.getColumn()};
  }

  bool inUserCode(SourceLocation L) {
    if (L.isInvalid()) return false;
    SourceLocation E = SM.getExpansionLoc(L);
    return !SM.isInSystemHeader(E) && !SM.isWrittenInBuiltinFile(E) && !SM.isWrittenInCommandLineFile(E);
  }

  void noteRecord(const RecordDecl *RD) {
    if (!RD) return;
    RD = RD->getDefinition();
    if (!RD || RD->isDependentType() || RD->isInvalidDecl()) return;
    if (RecordsSeen.insert(RD).second) RecordQueue.push_back(RD);
  }

  int typeRef(QualType T) {
    if (T.isNull()) return -1;
    QualType C = T.getCanonicalType();
    std::string Key = typeStr(C);
    auto It = TypeByKey.find(Key);
    if (It != TypeByKey.end()) return It->second;
    int Idx = Types.size();
    Types.push_back("");
    TypeByKey[Key] = Idx;
    json::Object O;
    O["s"] = Key;
    if (C.isConstQualified()) O["const"] = true;
    if (C.isRestrictQualified()) O["restrict"] = true;
    if (C.isVolatileQualified()) O["volatile"] = true;
    const Type *TP = C.getTypePtr();
    if (!TP->isDependentType() && !TP->isIncompleteType() && !TP->isFunctionType() && !TP->isVoidType() && !TP->isReferenceType()) {
      O["size"] = (int64_t)Ctx.getTypeSizeInChars(C).getQuantity();
      O["align"] = (int64_t)Ctx.getTypeAlignInChars(C).getQuantity();
    }
    if (TP->isReferenceType()) {
      O["k"] = "ref";
      O["pointee"] = typeRef(TP->getPointeeType());
    } else if (TP->isPointerType()) {
      O["k"] = TP->getPointeeType()->isFunctionType() ? "fnptr" : "ptr";
      O["pointee"] = typeRef(TP->getPointeeType());
    } else if (const auto *AT = dyn_cast<ConstantArrayType>(TP)) {
      O["k"] = "array";
      O["elem"] = typeRef(AT->getElementType());
      O["n"] = (int64_t)AT->getSize().getZExtValue();
    } else if (TP->isArrayType()) {
      O["k"] = "array";
      O["elem"] = typeRef(cast<ArrayType>(TP)->getElementType());
    } else if (const auto *RT = TP->getAs<RecordType>()) {
      O["k"] = RT->getDecl()->isUnion() ? "union" : "record";
      O["rec"] = typeStr(QualType(RT, 0));
      noteRecord(RT->getDecl());
    } else if (TP->isBooleanType()) {
      O["k"] = "bool";
    } else if (TP->isEnumeralType()) {
      O["k"] = "enum";
    } else if (TP->isIntegerType()) {
      O["k"] = "int";
      O["signed"] = TP->isSignedIntegerType();
    } else if (TP->isVoidType()) {
      O["k"] = "void";
    } else if (TP->isFunctionType()) {
      O["k"] = "fn";
    } else if (TP->isFloatingType()) {
      O["k"] = "float";
    } else {
      O["k"] = "other";
    }
    std::string S;
    llvm::raw_string_ostream OS(S);
    OS << json::Value(std::move(O));
    Types[Idx] = OS.str();
    return Idx;
  }

  std::string qualName(const NamedDecl *D) {
    std::string S;
    llvm::raw_string_ostream OS(S);
    D->getNameForDiagnostic(OS, PP, true);
    return OS.str();
  }

  std::string mangled(const FunctionDecl *FD) {
    if (isa<CXXConstructorDecl>(FD) || isa<CXXDestructorDecl>(FD)) return "ctor:" + qualName(FD);
    if (FD->isDependentContext()) return "dep:" + qualName(FD);
    std::string S;
    llvm::raw_string_ostream OS(S);
    if (Mangler->shouldMangleDeclName(FD))
      Mangler->mangleName(GlobalDecl(FD), OS);
    else
      OS << FD->getName();
    return OS.str();
  }

  std::string varId(const VarDecl *VD) {
    // globals / static members: qualified name with template arguments
    return qualName(VD);
  }

  int localId(const Decl *D) {
    auto It = LocalIds.find(D);
    if (It != LocalIds.end()) return It->second;
    int I = NextLocal++;
    LocalIds[D] = I;
    return I;
  }

  // ---- APValue ----
  json::Value apvalue(const APValue &V, QualType T) {
    switch (V.getKind()) {
    case APValue::Int: {
      llvm::SmallString<64> S;
      V.getInt().toString(S, 16, V.getInt().isSigned(), true);
      return json::Object{{"i", S.str().str()}, {"bits", (int64_t)V.getInt().getBitWidth()}};
    }
    case APValue::Struct: {
      json::Array Bases, Fields;
      const RecordDecl *RD = T->getAsRecordDecl();
      const CXXRecordDecl *CRD = dyn_cast_or_null<CXXRecordDecl>(RD);
      unsigned I = 0;
      if (CRD)
        for (const auto &B : CRD->bases()) {
          if (I < V.getStructNumBases()) Bases.push_back(apvalue(V.getStructBase(I), B.getType()));
          I++;
        }
      I = 0;
      if (RD)
        for (const auto *F : RD->fields()) {
          if (I < V.getStructNumFields())
            Fields.push_back(json::Object{{"n", F->getName().str()}, {"v", apvalue(V.getStructField(I), F->getType())}});
          I++;
        }
      return json::Object{{"struct", typeStr(T)}, {"bases", std::move(Bases)}, {"fields", std::move(Fields)}};
    }
    case APValue::Union: {
      const FieldDecl *F = V.getUnionField();
      if (!F) return json::Object{{"union", typeStr(T)}, {"member", nullptr}};
      return json::Object{{"union", typeStr(T)}, {"member", F->getName().str()}, {"v", apvalue(V.getUnionValue(), F->getType())}};
    }
    case APValue::Array: {
      json::Array A;
      QualType ET = Ctx.getAsArrayType(T) ? Ctx.getAsArrayType(T)->getElementType() : QualType();
      unsigned N = V.getArraySize(), NI = V.getArrayInitializedElts();
      for (unsigned I = 0; I < N; I++) {
        if (I < NI) A.push_back(apvalue(V.getArrayInitializedElt(I), ET));
        else if (V.hasArrayFiller()) A.push_back(apvalue(V.getArrayFiller(), ET));
      }
      return json::Object{{"array", std::move(A)}};
    }
    case APValue::LValue: {
      json::Object O;
      if (const auto *VD = V.getLValueBase().dyn_cast<const ValueDecl *>()) {
        O["lvalue"] = qualName(VD);
      } else if (V.getLValueBase().isNull()) {
        O["lvalue"] = nullptr;
      } else {
        O["lvalue"] = "<expr>";
      }
      O["offset"] = (int64_t)V.getLValueOffset().getQuantity();
      return std::move(O);
    }
    case APValue::None:
    case APValue::Indeterminate:
      return json::Object{{"indeterminate", true}};
    default:
      return json::Object{{"unsupported", (int64_t)V.getKind()}};
    }
  }

  // ---- expressions ----
  void constVal(json::Object &O, const Expr *E) {
    if (E->isValueDependent() || E->isTypeDependent()) return;
    QualType T = E->getType();
    if (!T->isIntegralOrEnumerationType()) return;
    if (!E->isPRValue()) {
      // allow lvalues of const integral variables to be folded too
    }
    Expr::EvalResult R;
    if (E->EvaluateAsInt(R, Ctx, Expr::SE_NoSideEffects) && R.Val.isInt()) {
      llvm::SmallString<64> S;
      R.Val.getInt().toString(S, 10, R.Val.getInt().isSigned());
      O["cv"] = S.str().str();
    }
  }

  json::Value expr(const Expr *E) {
    if (!E) return nullptr;
    json::Object O;
    auto fin = [&](json::Object &&X) -> json::Value {
      X["t"] = typeRef(E->getType());
      if (E->isLValue()) X["lv"] = true;
      X["l"] = loc(E->getExprLoc());
      constVal(X, E);
      return std::move(X);
    };
    // transparent wrappers
    if (const auto *P = dyn_cast<ParenExpr>(E)) return expr(P->getSubExpr());
    if (const auto *P = dyn_cast<ExprWithCleanups>(E)) return expr(P->getSubExpr());
    if (const auto *P = dyn_cast<MaterializeTemporaryExpr>(E)) return expr(P->getSubExpr());
    if (const auto *P = dyn_cast<CXXBindTemporaryExpr>(E)) return expr(P->getSubExpr());
    if (const auto *P = dyn_cast<ConstantExpr>(E)) return expr(P->getSubExpr());
    if (const auto *P = dyn_cast<SubstNonTypeTemplateParmExpr>(E)) return expr(P->getReplacement());
    if (const auto *P = dyn_cast<CXXDefaultArgExpr>(E)) {
      json::Value V = expr(P->getExpr());
      if (auto *OO = V.getAsObject()) (*OO)["defaultarg"] = true;
      return V;
    }
    if (const auto *P = dyn_cast<CXXDefaultInitExpr>(E)) return expr(P->getExpr());

    if (const auto *IL = dyn_cast<IntegerLiteral>(E)) {
      O["k"] = "lit";
      return fin(std::move(O));
    }
    if (const auto *BL = dyn_cast<CXXBoolLiteralExpr>(E)) {
      O["k"] = "lit";
      O["bool"] = BL->getValue();
      return fin(std::move(O));
    }
    if (isa<CharacterLiteral>(E)) { O["k"] = "lit"; return fin(std::move(O)); }
    if (const auto *SL = dyn_cast<StringLiteral>(E)) {
      O["k"] = "str";
      O["v"] = SL->getBytes().str();
      return fin(std::move(O));
    }
    if (isa<CXXNullPtrLiteralExpr>(E) || isa<GNUNullExpr>(E)) { O["k"] = "null"; return fin(std::move(O)); }
    if (isa<ImplicitValueInitExpr>(E) || isa<CXXScalarValueInitExpr>(E)) { O["k"] = "zeroinit"; return fin(std::move(O)); }
    if (isa<CXXThisExpr>(E)) { O["k"] = "this"; return fin(std::move(O)); }
    if (const auto *UE = dyn_cast<UnaryExprOrTypeTraitExpr>(E)) {
      O["k"] = "sizeof";
      if (UE->isArgumentType()) O["of"] = typeRef(UE->getArgumentType());
      else O["of"] = typeRef(UE->getArgumentExpr()->getType());
      return fin(std::move(O));
    }
    if (const auto *DR = dyn_cast<DeclRefExpr>(E)) {
      const ValueDecl *D = DR->getDecl();
      O["k"] = "ref";
      O["name"] = D->getNameAsString();
      if (const auto *PV = dyn_cast<ParmVarDecl>(D)) {
        O["rk"] = "param";
        O["id"] = localId(PV);
      } else if (const auto *VD = dyn_cast<VarDecl>(D)) {
        if (VD->isLocalVarDecl() && !VD->isStaticLocal()) {
          O["rk"] = "local";
          O["id"] = localId(VD);
        } else {
          O["rk"] = VD->isStaticLocal() ? "staticlocal" : "global";
          O["g"] = varId(VD);
        }
      } else if (const auto *FD = dyn_cast<FunctionDecl>(D)) {
        O["rk"] = "func";
        O["f"] = mangled(FD);
        O["qn"] = qualName(FD);
      } else if (isa<EnumConstantDecl>(D)) {
        O["rk"] = "enumconst";
      } else {
        O["rk"] = "other";
      }
      return fin(std::move(O));
    }
    if (const auto *ME = dyn_cast<MemberExpr>(E)) {
      const ValueDecl *D = ME->getMemberDecl();
      if (const auto *VD = dyn_cast<VarDecl>(D)) { // static data member via object
        O["k"] = "ref";
        O["rk"] = "global";
        O["name"] = VD->getNameAsString();
        O["g"] = varId(VD);
        O["via"] = expr(ME->getBase());
        return fin(std::move(O));
      }
      O["k"] = "member";
      O["arrow"] = ME->isArrow();
      O["base"] = expr(ME->getBase());
      O["name"] = D->getNameAsString();
      if (const auto *FD = dyn_cast<FieldDecl>(D)) {
        const RecordDecl *RD = FD->getParent();
        O["rec"] = typeStr(Ctx.getRecordType(RD));
        if (!RD->isDependentType() && RD->getDefinition() && !RD->isInvalidDecl()) {
          noteRecord(RD);
          O["off"] = (int64_t)(Ctx.getASTRecordLayout(RD).getFieldOffset(FD->getFieldIndex()) / 8);
        }
        if (RD->isUnion()) O["inunion"] = true;
      } else if (const auto *MD = dyn_cast<CXXMethodDecl>(D)) {
        O["method"] = mangled(MD);
      }
      return fin(std::move(O));
    }
    if (const auto *AS = dyn_cast<ArraySubscriptExpr>(E)) {
      O["k"] = "index";
      O["base"] = expr(AS->getBase());
      O["idx"] = expr(AS->getIdx());
      return fin(std::move(O));
    }
    if (const auto *UO = dyn_cast<UnaryOperator>(E)) {
      O["k"] = "un";
      O["op"] = UnaryOperator::getOpcodeStr(UO->getOpcode()).str();
      if (UO->isPostfix()) O["post"] = true;
      O["e"] = expr(UO->getSubExpr());
      return fin(std::move(O));
    }
    if (const auto *BO = dyn_cast<BinaryOperator>(E)) {
      O["k"] = BO->isAssignmentOp() ? "assign" : "bin";
      O["op"] = BO->getOpcodeStr().str();
      O["lhs"] = expr(BO->getLHS());
      O["rhs"] = expr(BO->getRHS());
      return fin(std::move(O));
    }
    if (const auto *CO = dyn_cast<ConditionalOperator>(E)) {
      O["k"] = "cond";
      O["c"] = expr(CO->getCond());
      O["then"] = expr(CO->getTrueExpr());
      O["else"] = expr(CO->getFalseExpr());
      return fin(std::move(O));
    }
    if (const auto *CE = dyn_cast<CastExpr>(E)) {
      CastKind CK = CE->getCastKind();
      bool Implicit = isa<ImplicitCastExpr>(E);
      if (Implicit && (CK == CK_NoOp || CK == CK_FunctionToPointerDecay || CK == CK_BuiltinFnToFnPtr))
        return expr(CE->getSubExpr());
      if (CK == CK_LValueToRValue) {
        O["k"] = "load";
        O["e"] = expr(CE->getSubExpr());
        return fin(std::move(O));
      }
      O["k"] = "cast";
      O["ck"] = CastExpr::getCastKindName(CK);
      if (Implicit) O["implicit"] = true;
      else if (isa<CXXReinterpretCastExpr>(E)) O["syntax"] = "reinterpret_cast";
      else if (isa<CXXStaticCastExpr>(E)) O["syntax"] = "static_cast";
      else if (isa<CXXConstCastExpr>(E)) O["syntax"] = "const_cast";
      else if (isa<CStyleCastExpr>(E)) O["syntax"] = "cstyle";
      else if (isa<CXXFunctionalCastExpr>(E)) O["syntax"] = "functional";
      else O["syntax"] = "other";
      if (CK == CK_DerivedToBase || CK == CK_UncheckedDerivedToBase) {
        // offset of the base subobject
        int64_t Off = 0;
        bool Ok = true;
        QualType DT = CE->getSubExpr()->getType();
        if (DT->isPointerType()) DT = DT->getPointeeType();
        const CXXRecordDecl *Cur = DT->getAsCXXRecordDecl();
        for (const CXXBaseSpecifier *B : CE->path()) {
          const CXXRecordDecl *BD = B->getType()->getAsCXXRecordDecl();
          if (!Cur || !BD || B->isVirtual()) { Ok = false; break; }
          Off += Ctx.getASTRecordLayout(Cur).getBaseClassOffset(BD).getQuantity();
          Cur = BD;
        }
        if (Ok) O["baseoff"] = Off;
      }
      O["e"] = expr(CE->getSubExpr());
      return fin(std::move(O));
    }
    if (const auto *LE = dyn_cast<LambdaExpr>(E)) {
      // a local function object: serialised in place, in the id space of the enclosing function, so that captured variables keep
      // their identity; analyses inline the body at the calls of the closure
      O["k"] = "lambda";
      json::Array PA;
      if (const CXXMethodDecl *Op = LE->getCallOperator()) {
        for (const ParmVarDecl *P : Op->parameters()) {
          json::Object PO;
          PO["name"] = P->getNameAsString();
          PO["id"] = localId(P);
          PO["t"] = typeRef(P->getType());
          PA.push_back(std::move(PO));
        }
        O["ret"] = typeRef(Op->getReturnType());
      }
      O["params"] = std::move(PA);
      O["byref"] = LE->getCaptureDefault() == LCD_ByRef;
      bool AllRef = true;
      for (const LambdaCapture &C : LE->captures())
        if (C.getCaptureKind() != LCK_ByRef && C.getCaptureKind() != LCK_This) AllRef = false;
      O["allref"] = AllRef;
      if (LE->getBody()) O["body"] = stmt(LE->getBody());
      return fin(std::move(O));
    }
    if (const auto *OC = dyn_cast<CXXOperatorCallExpr>(E)) {
      const auto *MD = dyn_cast_or_null<CXXMethodDecl>(OC->getDirectCallee());
      if (MD && MD->getParent() && MD->getParent()->isLambda() && OC->getOperator() == OO_Call && OC->getNumArgs() >= 1) {
        O["k"] = "lcall";
        O["closure"] = expr(OC->getArg(0));
        json::Array A;
        for (unsigned I = 1; I < OC->getNumArgs(); I++) A.push_back(expr(OC->getArg(I)));
        O["args"] = std::move(A);
        return fin(std::move(O));
      }
      if (MD && (MD->isCopyAssignmentOperator() || MD->isMoveAssignmentOperator()) && MD->isTrivial() && OC->getNumArgs() == 2) {
        O["k"] = "assign";
        O["op"] = "=";
        O["recordcopy"] = true;
        O["lhs"] = expr(OC->getArg(0));
        O["rhs"] = expr(OC->getArg(1));
        return fin(std::move(O));
      }
    }
    if (const auto *MC = dyn_cast<CXXMemberCallExpr>(E)) {
      const CXXMethodDecl *MD = MC->getMethodDecl();
      O["k"] = "call";
      if (MD) {
        O["f"] = mangled(MD);
        O["qn"] = qualName(MD);
        O["name"] = MD->getNameAsString();
      }
      const Expr *Obj = MC->getImplicitObjectArgument();
      O["this"] = expr(Obj);
      if (const auto *ME = dyn_cast<MemberExpr>(MC->getCallee()->IgnoreParens()))
        O["arrow"] = ME->isArrow();
      json::Array A;
      for (const Expr *Arg : MC->arguments()) A.push_back(expr(Arg));
      O["args"] = std::move(A);
      return fin(std::move(O));
    }
    if (const auto *CE = dyn_cast<CallExpr>(E)) {
      const FunctionDecl *FD = CE->getDirectCallee();
      json::Array A;
      for (const Expr *Arg : CE->arguments()) A.push_back(expr(Arg));
      if (FD) {
        O["k"] = "call";
        O["f"] = mangled(FD);
        O["qn"] = qualName(FD);
        O["name"] = FD->getNameAsString();
        if (FD->getBuiltinID()) O["builtin"] = true;
      } else {
        O["k"] = "icall";
        O["fn"] = expr(CE->getCallee());
      }
      O["args"] = std::move(A);
      return fin(std::move(O));
    }
    if (const auto *CC = dyn_cast<CXXConstructExpr>(E)) {
      const CXXConstructorDecl *CD = CC->getConstructor();
      if (CD->isCopyOrMoveConstructor() && CD->isTrivial() && CC->getNumArgs() == 1) {
        O["k"] = "copyctor";
        O["e"] = expr(CC->getArg(0));
        return fin(std::move(O));
      }
      if (CD->isDefaultConstructor() && CD->isTrivial()) {
        O["k"] = "defaultinit";
        return fin(std::move(O));
      }
      O["k"] = "construct";
      O["f"] = qualName(CD);
      json::Array A;
      for (const Expr *Arg : CC->arguments()) A.push_back(expr(Arg));
      O["args"] = std::move(A);
      return fin(std::move(O));
    }
    if (const auto *IL = dyn_cast<InitListExpr>(E)) {
      const InitListExpr *Sem = IL->isSemanticForm() ? IL : (IL->getSemanticForm() ? IL->getSemanticForm() : IL);
      O["k"] = "initlist";
      json::Array A;
      for (const Expr *I : Sem->inits()) A.push_back(expr(I));
      O["inits"] = std::move(A);
      if (Sem->getType()->isUnionType() && Sem->getInitializedFieldInUnion())
        O["unionfield"] = Sem->getInitializedFieldInUnion()->getNameAsString();
      return fin(std::move(O));
    }
    O["k"] = "?";
    O["cls"] = E->getStmtClassName();
    json::Array A;
    for (const Stmt *C : E->children())
      if (const auto *CE = dyn_cast_or_null<Expr>(C)) A.push_back(expr(CE));
    O["children"] = std::move(A);
    return fin(std::move(O));
  }

  json::Value varDeclLocal(const VarDecl *VD) {
    json::Object O;
    O["name"] = VD->getNameAsString();
    O["t"] = typeRef(VD->getType());
    O["l"] = loc(VD->getLocation());
    if (VD->isStaticLocal()) {
      O["static"] = true;
      O["g"] = varId(VD);
      if (VD->getTLSKind() != VarDecl::TLS_None) O["tls"] = true;
    } else {
      O["id"] = localId(VD);
    }
    if (VD->hasInit()) O["init"] = expr(VD->getInit());
    return std::move(O);
  }

  json::Value stmt(const Stmt *S) {
    if (!S) return nullptr;
    json::Object O;
    O["l"] = loc(S->getBeginLoc());
    if (const auto *CS = dyn_cast<CompoundStmt>(S)) {
      O["k"] = "compound";
      json::Array A;
      for (const Stmt *C : CS->body()) A.push_back(stmt(C));
      O["body"] = std::move(A);
      return std::move(O);
    }
    if (const auto *IS = dyn_cast<IfStmt>(S)) {
      if (IS->isConstexpr() && !IS->getCond()->isValueDependent()) {
        if (auto ND = IS->getNondiscardedCase(Ctx)) {
          O["k"] = "constexpr_if";
          O["c"] = expr(IS->getCond());
          O["taken"] = stmt(*ND);
          return std::move(O);
        }
      }
      O["k"] = "if";
      if (IS->getInit()) O["init"] = stmt(IS->getInit());
      if (IS->getConditionVariableDeclStmt()) O["condvar"] = stmt(IS->getConditionVariableDeclStmt());
      O["c"] = expr(IS->getCond());
      O["then"] = stmt(IS->getThen());
      O["else"] = stmt(IS->getElse());
      return std::move(O);
    }
    if (const auto *FS = dyn_cast<ForStmt>(S)) {
      O["k"] = "for";
      O["init"] = stmt(FS->getInit());
      O["c"] = expr(FS->getCond());
      O["inc"] = expr(FS->getInc());
      O["body"] = stmt(FS->getBody());
      return std::move(O);
    }
    if (const auto *WS = dyn_cast<WhileStmt>(S)) {
      O["k"] = "while";
      O["c"] = expr(WS->getCond());
      O["body"] = stmt(WS->getBody());
      return std::move(O);
    }
    if (const auto *DS = dyn_cast<DoStmt>(S)) {
      O["k"] = "do";
      O["c"] = expr(DS->getCond());
      O["body"] = stmt(DS->getBody());
      return std::move(O);
    }
    if (const auto *RS = dyn_cast<ReturnStmt>(S)) {
      O["k"] = "return";
      O["e"] = expr(RS->getRetValue());
      return std::move(O);
    }
    if (isa<BreakStmt>(S)) { O["k"] = "break"; return std::move(O); }
    if (isa<ContinueStmt>(S)) { O["k"] = "continue"; return std::move(O); }
    if (isa<NullStmt>(S)) { O["k"] = "null"; return std::move(O); }
    if (const auto *DS = dyn_cast<DeclStmt>(S)) {
      O["k"] = "decl";
      json::Array A;
      for (const Decl *D : DS->decls()) {
        if (const auto *VD = dyn_cast<VarDecl>(D)) A.push_back(varDeclLocal(VD));
        else if (isa<TypedefNameDecl>(D) || isa<StaticAssertDecl>(D) || isa<UsingDecl>(D) || isa<UsingDirectiveDecl>(D) || isa<TagDecl>(D)) {}
        else A.push_back(json::Object{{"unknown_decl", D->getDeclKindName()}});
      }
      O["vars"] = std::move(A);
      return std::move(O);
    }
    if (const auto *SS = dyn_cast<SwitchStmt>(S)) {
      O["k"] = "switch";
      O["c"] = expr(SS->getCond());
      O["body"] = stmt(SS->getBody());
      return std::move(O);
    }
    if (const auto *CS = dyn_cast<CaseStmt>(S)) {
      O["k"] = "case";
      O["v"] = expr(CS->getLHS());
      O["sub"] = stmt(CS->getSubStmt());
      return std::move(O);
    }
    if (const auto *DS = dyn_cast<DefaultStmt>(S)) {
      O["k"] = "default";
      O["sub"] = stmt(DS->getSubStmt());
      return std::move(O);
    }
    if (const auto *E = dyn_cast<Expr>(S)) {
      O["k"] = "expr";
      O["e"] = expr(E);
      return std::move(O);
    }
    if (isa<GCCAsmStmt>(S) || isa<MSAsmStmt>(S)) { O["k"] = "asm"; return std::move(O); }
    O["k"] = "?";
    O["cls"] = S->getStmtClassName();
    return std::move(O);
  }

  // ---- declarations ----
  json::Value function(const FunctionDecl *FD) {
    LocalIds.clear();
    NextLocal = 0;
    json::Object O;
    O["id"] = mangled(FD);
    O["qn"] = qualName(FD);
    O["name"] = FD->getNameAsString();
    O["l"] = loc(FD->getLocation());
    const FunctionDecl *First = FD->getFirstDecl();
    O["decl_l"] = loc(First->getLocation());
    O["ret"] = typeRef(FD->getReturnType());
    O["externC"] = FD->isExternC();
    O["linkage"] = FD->getFormalLinkage() == InternalLinkage ? "internal" : (FD->getFormalLinkage() == ExternalLinkage ? "external" : "other");
    O["inline"] = FD->isInlined();
    O["static_kw"] = FD->getStorageClass() == SC_Static;
    if (FD->getTemplateSpecializationKind() != TSK_Undeclared) O["tsk"] = (int64_t)FD->getTemplateSpecializationKind();
    if (const auto *MD = dyn_cast<CXXMethodDecl>(FD)) {
      O["method"] = true;
      O["static_method"] = MD->isStatic();
      O["const_method"] = MD->isConst();
      O["access"] = (int64_t)MD->getAccess();
      const CXXRecordDecl *P = MD->getParent();
      O["parent"] = typeStr(Ctx.getRecordType(P));
      noteRecord(P);
      if (!MD->isStatic()) O["this_t"] = typeRef(MD->getThisType());
      if (MD->isImplicit()) O["implicit"] = true;
    }
    json::Array Ps;
    for (const ParmVarDecl *P : FD->parameters()) {
      json::Object PO;
      PO["id"] = localId(P);
      PO["name"] = P->getNameAsString();
      PO["t"] = typeRef(P->getType());
      QualType PT = P->getType();
      if (PT.isRestrictQualified()) PO["restrict"] = true;
      if (PT->isReferenceType() || PT->isPointerType()) {
        QualType Pointee = PT->getPointeeType();
        PO["pointee_const"] = Pointee.isConstQualified();
        PO["indirect"] = PT->isReferenceType() ? "ref" : "ptr";
      }
      if (P->hasDefaultArg() && !P->hasUninstantiatedDefaultArg() && !P->hasUnparsedDefaultArg()) PO["default"] = expr(P->getDefaultArg());
      Ps.push_back(std::move(PO));
    }
    O["params"] = std::move(Ps);
    if (FD->doesThisDeclarationHaveABody() && FD->getBody()) {
      O["body"] = stmt(FD->getBody());
    }
    return std::move(O);
  }

  json::Value global(const VarDecl *VD) {
    LocalIds.clear();
    NextLocal = 0;
    json::Object O;
    O["id"] = varId(VD);
    O["name"] = VD->getNameAsString();
    O["t"] = typeRef(VD->getType());
    O["l"] = loc(VD->getLocation());
    O["const"] = VD->getType().isConstQualified() || (VD->getType()->isReferenceType());
    O["constexpr"] = VD->isConstexpr();
    O["is_def"] = VD->isThisDeclarationADefinition() == VarDecl::Definition;
    O["has_init"] = VD->hasInit();
    O["static_member"] = VD->isStaticDataMember();
    O["static_local"] = VD->isStaticLocal();
    O["tls"] = VD->getTLSKind() != VarDecl::TLS_None;
    O["externC"] = VD->isExternC();
    O["linkage"] = VD->getFormalLinkage() == InternalLinkage ? "internal" : (VD->getFormalLinkage() == ExternalLinkage ? "external" : "other");
    O["inline"] = VD->isInline();
    if (VD->isStaticDataMember()) {
      const auto *P = dyn_cast<CXXRecordDecl>(VD->getDeclContext());
      if (P) O["parent"] = typeStr(Ctx.getRecordType(P));
    }
    {
      std::string S;
      llvm::raw_string_ostream OS(S);
      if (!VD->isStaticLocal() && !VD->getDeclContext()->isDependentContext()) {
        if (Mangler->shouldMangleDeclName(VD)) Mangler->mangleName(GlobalDecl(VD), OS);
        else OS << VD->getName();
      }
      O["sym"] = OS.str();
    }
    if (VD->hasInit() && !VD->getInit()->isValueDependent()) {
      const VarDecl *Def = VD;
      O["const_init"] = Def->hasConstantInitialization();
      if (const APValue *V = Def->evaluateValue()) O["value"] = apvalue(*V, VD->getType().getNonReferenceType());
      O["init"] = expr(VD->getInit());
    }
    return std::move(O);
  }

  json::Value record(const RecordDecl *RD) {
    json::Object O;
    O["name"] = typeStr(Ctx.getRecordType(RD));
    O["union"] = RD->isUnion();
    O["l"] = loc(RD->getLocation());
    O["user"] = inUserCode(RD->getLocation());
    const ASTRecordLayout &L = Ctx.getASTRecordLayout(RD);
    O["size"] = (int64_t)L.getSize().getQuantity();
    O["align"] = (int64_t)L.getAlignment().getQuantity();
    O["packed"] = RD->hasAttr<PackedAttr>();
    json::Array Bases, Fields;
    if (const auto *CRD = dyn_cast<CXXRecordDecl>(RD)) {
      for (const auto &B : CRD->bases()) {
        const CXXRecordDecl *BD = B.getType()->getAsCXXRecordDecl();
        if (!BD) continue;
        noteRecord(BD);
        Bases.push_back(json::Object{{"t", typeRef(B.getType())}, {"rec", typeStr(B.getType())}, {"off", (int64_t)L.getBaseClassOffset(BD).getQuantity()}});
      }
      O["pod"] = CRD->isPOD();
      O["trivially_copyable"] = CRD->isTriviallyCopyable();
      O["standard_layout"] = CRD->isStandardLayout();
      O["polymorphic"] = CRD->isPolymorphic();
      if (const auto *Spec = dyn_cast<ClassTemplateSpecializationDecl>(CRD)) {
        O["template"] = Spec->getSpecializedTemplate()->getQualifiedNameAsString();
        json::Array TA;
        for (const TemplateArgument &A : Spec->getTemplateArgs().asArray()) {
          std::string S;
          llvm::raw_string_ostream OS(S);
          A.print(PP, OS, true);
          TA.push_back(OS.str());
        }
        O["targs"] = std::move(TA);
      }
    }
    for (const FieldDecl *F : RD->fields()) {
      json::Object FO;
      FO["name"] = F->getNameAsString();
      FO["t"] = typeRef(F->getType());
      FO["off"] = (int64_t)(L.getFieldOffset(F->getFieldIndex()) / 8);
      FO["access"] = (int64_t)F->getAccess();
      if (F->isBitField()) FO["bitfield"] = true;
      if (F->isMutable()) FO["mutable"] = true;
      if (F->getType()->isIncompleteArrayType()) FO["flex"] = true;
      Fields.push_back(std::move(FO));
    }
    O["bases"] = std::move(Bases);
    O["fields"] = std::move(Fields);
    return std::move(O);
  }
};

class Collector : public RecursiveASTVisitor<Collector> {
public:
  Emitter &E;
  std::vector<const FunctionDecl *> Funcs;
  std::vector<const VarDecl *> Vars;
  std::set<const Decl *> Seen;
  explicit Collector(Emitter &Em) : E(Em) {}
  bool shouldVisitTemplateInstantiations() const { return true; }
  bool shouldVisitImplicitCode() const { return false; }

  bool VisitFunctionDecl(FunctionDecl *FD) {
    if (FD->isDependentContext()) return true;
    if (!E.inUserCode(FD->getLocation())) return true;
    if (FD->isImplicit() || FD->isDeleted() || FD->isDefaulted()) return true;
    if (FD->isTemplated()) return true;
    if (!Seen.insert(FD).second) return true;
    Funcs.push_back(FD);
    return true;
  }
  bool VisitVarDecl(VarDecl *VD) {
    if (isa<ParmVarDecl>(VD)) return true;
    if (VD->getDeclContext()->isDependentContext()) return true;
    if (VD->isLocalVarDecl() && !VD->isStaticLocal()) return true;
    if (!E.inUserCode(VD->getLocation())) return true;
    if (VD->isTemplated()) return true;
    if (VD->getType()->isDependentType()) return true;
    if (!Seen.insert(VD).second) return true;
    Vars.push_back(VD);
    return true;
  }
  bool VisitRecordDecl(RecordDecl *RD) {
    if (RD->isThisDeclarationADefinition() && !RD->isDependentType() && !RD->isInvalidDecl() && E.inUserCode(RD->getLocation())) {
      if (const auto *CRD = dyn_cast<CXXRecordDecl>(RD))
        if (CRD->getDescribedClassTemplate() || CRD->isLambda()) return true;
      E.noteRecord(RD);
    }
    return true;
  }
};

class Consumer : public ASTConsumer {
public:
  void HandleTranslationUnit(ASTContext &Ctx) override {
    if (Ctx.getDiagnostics().hasErrorOccurred()) {
      llvm::errs() << "jpfacts: compile errors, no facts written\n";
      return;
    }
    Emitter E(Ctx);
    Collector C(E);
    C.TraverseDecl(Ctx.getTranslationUnitDecl());

    std::error_code EC;
    std::unique_ptr<llvm::raw_fd_ostream> FOS;
    llvm::raw_ostream *OS = &llvm::outs();
    if (OutFile != "-") {
      FOS.reset(new llvm::raw_fd_ostream(OutFile, EC));
      if (EC) { llvm::errs() << "cannot open " << OutFile << "\n"; return; }
      OS = FOS.get();
    }
    json::Array Fs, Gs, Rs;
    for (const FunctionDecl *FD : C.Funcs) Fs.push_back(E.function(FD));
    for (const VarDecl *VD : C.Vars) Gs.push_back(E.global(VD));
    // records: queue may grow while emitting
    for (size_t I = 0; I < E.RecordQueue.size(); I++) Rs.push_back(E.record(E.RecordQueue[I]));
    json::Array Ts;
    // type entries may also have grown while emitting records
    for (size_t I = 0; I < E.Types.size(); I++) {
      auto V = json::parse(E.Types[I]);
      if (V) Ts.push_back(std::move(*V)); else Ts.push_back(nullptr);
    }
    json::Array Files;
    for (auto &F : E.Files) Files.push_back(F);
    json::Object Root;
    Root["triple"] = Ctx.getTargetInfo().getTriple().str();
    Root["pointer_bits"] = (int64_t)Ctx.getTargetInfo().getPointerWidth(0);
    Root["files"] = std::move(Files);
    Root["types"] = std::move(Ts);
    Root["records"] = std::move(Rs);
    Root["globals"] = std::move(Gs);
    Root["functions"] = std::move(Fs);
    *OS << json::Value(std::move(Root)) << "\n";
    OS->flush();
  }
};

class Action : public ASTFrontendAction {
public:
  std::unique_ptr<ASTConsumer> CreateASTConsumer(CompilerInstance &, StringRef) override {
    return std::make_unique<Consumer>();
  }
};

} // namespace

int main(int argc, const char **argv) {
  auto Opts = tooling::CommonOptionsParser::create(argc, argv, Cat);
  if (!Opts) { llvm::errs() << llvm::toString(Opts.takeError()) << "\n"; return 2; }
  tooling::ClangTool Tool(Opts->getCompilations(), Opts->getSourcePathList());
  int R = Tool.run(tooling::newFrontendActionFactory<Action>().get());
  return R;
}
