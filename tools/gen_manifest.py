#!/usr/bin/env python3
"""Regenerates MANIFEST.json from the CLAIMS table below (keeps it schema-valid and in sync)."""
import json, os
V = os.path.dirname(os.path.dirname(os.path.abspath(__file__)))
props = [json.loads(l) for l in open(os.path.join(V, 'properties.jsonl'))]

CLAIMS = {
 'C19': dict(
    technique='static analysis: record-layout comparison and wrapper dataflow (linearity / crossed-name / sibling / injectivity rules) over the type-checked AST of every configuration; constant-value relations on clang-evaluated initializers',
    category='other',
    text='Decides structurally, for every extern "C" wrapper and every C<->C++ cast pair, in 64- and 32-bit-word, asm and portable configurations: identical size/alignment/leaf layout; each wrapper is a linear forward of its own parameters to one C++ operation with the result returned; exported constants have the right value-level meaning. Exhaustive over wrappers x configurations; does not decide the C++ operations themselves nor the Go side.',
    design_ref='DESIGN.md 3/C19',
    note='trusted base: clang 14 front end + record layout, jpfacts serializer, jpv rules; Go bindings out of reach'),
}

CLAIMS['C17'] = dict(
    technique='static analysis: pointer-provenance alignment analysis of every pointer cast and interval analysis of constant-extent subscripts over the instantiated AST of five configurations (incl. Cortex-M0+ and AArch64 parses)',
    category='other',
    text='Decides the structural mechanisms the property names: no pointer conversion in library code produces a pointer less aligned than its pointee type requires (byte-buffer overlays must have alignment 1 and no padding); every compile-time-determined subscript of a fixed-size array is inside its extent for every template instantiation and word size. It does not decide general UB-freedom nor run-time-indexed accesses (counted, listed as undecided).',
    design_ref='DESIGN.md 3/C17',
    note='trusted base: clang 14 front end/layout, jpfacts, jpv rules; assumes the documented set_length/allocate/unmarshal protocol; ARMv6-M assembly bodies and Go callers not analysed')
CLAIMS['C20'] = dict(
    technique='static effect analysis: undefined-symbol sets of objects compiled with the Makefile flags; root classification of every store/memcpy/memset destination on mem2reg LLVM IR; AST escape analysis of mutable globals; assembly section/instruction scan',
    category='proof',
    text='Every write in every function of every configuration is shown to target the function own stack or argument-reachable memory (load-time initialisers excepted, which may write only the dispatch table and const objects); all external references are memory primitives or compiler helpers; hence no shared mutable state exists after load and concurrent calls on distinct outputs commute. Interleavings are discharged by absence of shared state, not explored.',
    design_ref='DESIGN.md 3/C20',
    note='trusted base: clang/LLVM 14 code generation and mem2reg, llvm-nm/objdump, jpir root classifier; assumes re-entrant callbacks; ARMv6-M assembly bodies not analysed; built with clang rather than arm-none-eabi-g++')

CLAIMS['C18'] = dict(
    technique='static alias-hazard dataflow (read-after-write through an aliased output) over the instantiated AST: byte-range access paths, exact unrolling of constant loops, same-induction-variable rule for run-time loops, memoised inter-procedural pattern queries with constant-argument propagation',
    category='other',
    text='Source-level decision for every function x every aliasing pattern its signature admits x every configuration, plus every in-place call site in the library: no read of an aliased input can observe a location already written through the output. Exhaustive over patterns (they do not depend on operand values). Two genuine defects are recorded as known findings (BigInt::shift_right/shift_left in place; C g1_add/g2_add with result==b in portable builds).',
    design_ref='DESIGN.md 3/C18',
    note='trusted base: clang 14 front end, jpfacts, the overlap rules of jpv/alias.py; assembly leaves are assumed alias-safe until R-ASM summaries exist; optimiser exploitation of __restrict not modelled')

CLAIMS['C01'] = dict(
    technique='static analysis: control-dependence (edge-dominance) rule on the CFG of the multi-pair Miller loop; constant relations checked against an independent big-integer pairing',
    category='other',
    text='Partial claim (identity clause + constants only): every line evaluation / doubling / addition step of the Miller loop is control-dependent on the non-identity edges of both members of the pair feeding it, for affine and prepared pairs in all three phases, and the accumulator starts at one; bls_x facts and (thorough) the exported generator pairing equal the mathematically defined values. The pairing value for non-identity inputs, bilinearity and order are NOT decided.',
    design_ref='DESIGN.md 3/C01',
    note='necessary-condition check only; trusted base clang front end + jpv CFG builder; x is the trusted parameter')
CLAIMS['C02'] = dict(
    technique='static analysis: relations between clang-evaluated constant initializers (located by role) checked with independent big-integer arithmetic; edge-dominance rules for the zero special cases',
    category='other',
    text='Partial claim: all Montgomery/field constants, square-root constants, masks and the zero special cases (inverse(0)=0, negate(0)=0, sqrt(0)) are decided for 64- and 32-bit-word configurations; exactness of the add/sub/mul/reduce routines for all operands is NOT decided (value-level).',
    design_ref='DESIGN.md 3/C02',
    note='trusted root: curve parameter x; oracle jpv/bls.py shares no code with the library')
CLAIMS['C04'] = dict(
    technique='static analysis: every Frobenius table entry and tower constant compared with independently computed values; interval analysis of table indices',
    category='other',
    text='Partial claim: Frobenius coefficient tables (all entries), their index ranges, tower one/zero/-1 constants and Fq2 square-root exponents are decided; the multiplication/squaring/inversion formulas are NOT decided (value-level).',
    design_ref='DESIGN.md 3/C04',
    note='trusted root: x and the defining polynomials u^2+1, v^3-(u+1), w^2-v')
CLAIMS['C05'] = dict(
    technique='static analysis: edge-dominance (must-pass) rules on the CFG of every instantiation of the addition and conversion routines, with guard exits identified by their effect',
    category='other',
    text='Partial claim: the exceptional cases (either operand the identity, equal operands given to addition, identity in conversions) are handled by guards that dominate the general formulas, with the right effect, in both add overloads for G1 and G2; the formulas themselves and on-curve invariance are NOT decided.',
    design_ref='DESIGN.md 3/C05',
    note='necessary-condition check; each guard in the table carries its necessity argument')

CLAIMS['C09'] = dict(
    technique='static path analysis (must-pass obligations on every accepting control-flow path of the instantiated decoders, with the `checked` parameter fixed), followed into the callees that discharge them',
    category='other',
    text='For the four Encoding::decode instantiations: every validating accepting path passes the form test, identity-encoding tests, a canonicality test, curve membership and the subgroup test with rejecting edges returning false; the non-validating path performs the same state changes; flag constants are disjoint and shared by encode/decode. Value round-trip equality is NOT decided.',
    design_ref='DESIGN.md 3/C09',
    note='exhaustive over paths (loops bounded to one iteration); arithmetic of is_on_curve/legendre/square_root not decided')
CLAIMS['C11'] = dict(
    technique='static path analysis: enumeration of all acyclic loop-body paths of the four key-derivation loops, abstracted by the outcomes of the cursor tests (predicate abstraction), with per-path cursor-progress obligations',
    category='other',
    text='Partial claim (bookkeeping only): on every path a cursor whose match is not refuted advances, a consumed attribute never emits a free slot, one slot at most is written per iteration together with j++, the key length is set to j. Key distribution and the pairing equations are NOT decided.',
    design_ref='DESIGN.md 3/C11',
    note='assumes sorted attribute / free-slot lists (documented precondition)')
CLAIMS['C12'] = dict(
    technique='static path analysis of the same loops (hidden-attribute paths write no key material) and a totality rule on precompute',
    category='other',
    text='Partial claim: hidden slots contribute neither to the key nor a delegation component on any path; visible matched attributes do enter the key; precompute binds every listed attribute. Non-decryptability is a cryptographic statement and is NOT decided.',
    design_ref='DESIGN.md 3/C12',
    note='necessary conditions only')
CLAIMS['C15'] = dict(
    technique='static analysis: affine buffer-offset (footprint) analysis of marshal/unmarshal vs the length formulas, writer/reader field pairing, finite-domain evaluation of the first-byte predicates, edge-dominance rules for length guards, must-check rule for decode verdicts',
    category='other',
    text='For all 22 marshal/unmarshal pairs: the bytes touched tile exactly [0, marshalledLength) for both signature settings and several slot counts, writer and reader agree field by field and codec by codec, length discovery agrees with what unmarshal consumes for all 256 first bytes and is guarded, every decode verdict propagates. Equality of values after a round trip is NOT decided.',
    design_ref='DESIGN.md 3/C15',
    note='affine forms are exact for these walks (else the check reports that it cannot model the walk)')

CLAIMS['C06'] = dict(
    technique='static analysis: call-graph reachability over resolved callees (who-may-call), dataflow rule on the w-NAF add-back carry, edge-dominance of digit reads, record-extent witnesses, constant relations of the GLV/Frobenius constants',
    category='other',
    text='Partial claim: order-r-only multiplications are unreachable from code handling points not yet in the subgroup; the recoding add-back overflow is tested and repaired in every instantiated width; digit reads are guarded; digit buffers/tables have the required extents; the GLV lattice, lambda/beta agreement, reciprocal multiplier (with exactness bound) and Frobenius constant are right. [k]P and the decomposition arithmetic are NOT decided.',
    design_ref='DESIGN.md 3/C06', note='necessary conditions only; x is the trusted root')
CLAIMS['C07'] = dict(
    technique='static analysis: rejection-loop rule (exit only on the in-range edge of a comparison against a constant of the right value), constant relations, interval rule on the bit-scan loop',
    category='other',
    text='Partial claim: the random exponent is rejection-sampled below |x| per digit and below r overall, recombined with |x|^k, and the exponentiation scans all 64 bits of each digit; a^k itself is NOT decided.',
    design_ref='DESIGN.md 3/C07', note='necessary conditions only')
CLAIMS['C08'] = dict(
    technique='static analysis: exact evaluation of constant-controlled loops over the AST (event traces of producer and consumers compared), edge-dominance for identity pairs, forwarding shape',
    category='other',
    text='The prepared path consumes exactly the 68 coefficients prepare produced, in order and at the same positions relative to the accumulator squarings as the on-the-fly steps; per-pair state is reset; identity pairs are skipped anywhere in the list; product = Miller loop + one final exponentiation. The trace space is a single trace (exhaustive). Numerical equality of values is NOT decided.',
    design_ref='DESIGN.md 3/C08', note='the traces depend only on bls_x and literals; a data-dependent condition other than the identity tests is reported as not analysable (exit 2)')
CLAIMS['C10'] = dict(
    technique='static analysis: rejection-loop and reduce-after-read rules on CFGs, who-may-call reachability, constant relations',
    category='other',
    text='Partial claim: field/scalar sampling, hash reduction, point sampling and try-and-increment exit only on the in-range/valid edges with the right moduli and validation flag; callers reduce what they read; cofactor clearing uses generic multiplication and the right cofactors. Determinism of hash-to-curve as a function is NOT decided.',
    design_ref='DESIGN.md 3/C10', note='necessary conditions only')
CLAIMS['C14'] = dict(
    technique='static analysis: forwarding-shape rule, path enumeration of the two-cursor merge (progress obligations), borrow-repair rule for subtraction modulo r',
    category='other',
    text='Partial claim: direct forms are precompute + precomputed forms by construction; the merge advances correctly on every path and drains both lists; identity differences are reduced modulo r. Equality of group elements and adjust_nondelegable are NOT decided.',
    design_ref='DESIGN.md 3/C14', note='assumes sorted lists')
CLAIMS['C16'] = dict(
    technique='static analysis: writer/reader agreement of the hash-input struct (definite assignment of every member, same sources and codecs, same callback arguments), padding-freeness in every configuration, role checks, who-may-call for cofactor clearing',
    category='other',
    text='Encryption and decryption feed the hash callback the same struct filled from the same sources; the struct has no padding; roles of keygen/encrypt/decrypt are as the scheme requires. Equality of the two pairing values is bilinearity (C01) and is NOT decided.',
    design_ref='DESIGN.md 3/C16', note='structural agreement only')

CLAIMS['C03'] = dict(
    technique='static sibling cross-check: signature/qualifier comparison of architecture specialisations against the generic members (type-checked AST of asm vs portable configurations), forwarding-shape rule, must-write / may-read / flag-materialisation dataflow over the disassembled x86-64 and AArch64 routines, dispatch-table pairing',
    category='other',
    text='Partial claim (necessary conditions only): every specialisation has the interface of the generic member it replaces and forwards its operands in order; each assembly routine writes its whole output on every path, reads its whole inputs and nothing else, and materialises the carry/borrow it returns; dispatch alternatives are two versions of one routine with equal footprints. Bit-equality of the computed values across back ends is NOT decided (numerical equivalence needs execution or a solver).',
    design_ref='DESIGN.md 9.6',
    note='ARMv6-M assembly bodies not analysable here; trusted base clang integrated assembler + llvm-objdump')

CLAIMS['C13'] = dict(
    technique='static sibling/agreement analysis: the message-binding term of signer and verifier, the shape of the verification equation (two pairings, one negation, comparison with the public value), path enumeration of the signer fill loop, forwarding shape',
    category='other',
    text='Partial claim (structural necessary conditions only): signer and verifier bind the message through the same term, the verifier compares the product of exactly two pairings with the public pairing value, the fill loop contributes exactly on index matches, sign/verify are precompute + precomputed forms. Whether verification accepts exactly the signed message/list is the value of a pairing equation and is NOT decided.',
    design_ref='DESIGN.md 9.7', note='no claim about soundness or unforgeability')


# ---- claims as extended by the algebraic value-numbering rules (override the entries above)
CLAIMS['C01'].update(
    technique='static analysis: control-dependence rule on the CFG of the multi-pair Miller loop; algebraic value numbering (polynomial normal forms) of the Miller doubling/addition steps and the line evaluation; exponent-domain value numbering of the final exponentiation; who-may-write rule for field representations; constant relations against an independent big-integer pairing',
    text='Decided for all inputs at once: the running point is updated by the tangent / chord rule and the coefficient triple is proportional (by a factor that the final exponentiation removes) to the tangent / chord line through the untwisted points; ell multiplies the accumulator by that line at positions 1, v, vw; the final exponentiation raises to 3(q^12-1)/r; identity pairs contribute nothing wherever they sit; constants are right. Not decided: that these pieces compose to the optimal-ate pairing is the textbook theorem (assumed), and the base-field layer is C02/C03.',
    note='trusted base: clang front end, jpfacts, the gvn interpreter and polynomial arithmetic of jpv; x is the trusted parameter')
CLAIMS['C02'].update(
    technique='static analysis: word-level algebraic value numbering of the x86-64 and AArch64 multi-precision routines (integer-polynomial normal forms with carry identities, interval arguments for dropped carries, path facts for the correction tails); constant relations; truth tables of the portable correction branches; no-wrap rule; who-may-write rule for representations with a table of decided primitives',
    text='Decided: every assembly add/subtract/double/multiply/square/Montgomery-reduce (and fused multiply-reduce) routine computes its specification polynomial on every path and aliasing pattern, with the modulus correction applied exactly when the value reaches the modulus; all constants; zero special cases; portable correction branches; no dropped carry in the portable layer; no code outside the 12 decided primitives writes a representation. Not decided: the portable C++ multiply/reduce as values (only carries/branches), inversion / square-root arithmetic.',
    note='preconditions of the specifications (operands canonical, inv*p[0] = -1 mod 2^64, T < p*2^384) are stated, not derived')
CLAIMS['C03'].update(
    technique='static analysis: word-level algebraic value numbering of every x86-64 (baseline and BMI2/ADX) and AArch64 routine against one specification polynomial per operation; sibling cross-check of specialisation signatures and forwarding; must-write / may-read / flag dataflow; dispatch pairing',
    category='other',
    text='Decided: the x86-64 baseline, x86-64 BMI2/ADX and AArch64 routines all compute the same specification (exact integer add/sub/double with returned carry, full product/square, modular add/sub/double, Montgomery reduction with canonical result) for all operands and admitted aliasing patterns, so they agree with each other bit for bit; specialisations forward operands in order. Not decided: ARMv6-M bodies (not assemblable here) and the portable C++ multiply/reduce as values. Found and fixed D10 (baseline x86-64 square dropped a carry for operands >= ~2^383).',
    note='trusted base: clang integrated assembler + llvm-objdump, the instruction semantics in jpv/asmsem.py')
CLAIMS['C04'].update(
    technique='static analysis: algebraic value numbering of every tower routine over F_q[inputs] compared with the definitional arithmetic (all aliasing patterns); span check for cyclotomic squaring; exponent-domain value numbering; constant tables; interval analysis of indices; who-may-write rule for field representations',
    text='Decided for all inputs: every Fq2/Fq6/Fq12 routine (incl. sparse products, Frobenius maps for every power, inversion modulo its inner inversion, cyclotomic squaring on the cyclotomic subgroup) equals the defining polynomial arithmetic; table entries and index ranges; no tower code touches a field representation directly (so operands of base-field operations are canonical). Not decided: Fq2 square root / Legendre, byte I/O.',
    note='base-field operations are treated as exact ring operations (C02/C03)')
CLAIMS['C05'].update(
    technique='static analysis: algebraic value numbering of doubling / addition (projective and mixed) against the tangent / chord rule; edge-dominance rules for exceptional-case guards identified by effect; representation-independence rule and truth table for point equality',
    text='Decided for all inputs: the general-case formulas are the group law on affine images (G1 and G2, out distinct or aliased); every exceptional case is handled by a guard that dominates the formula with the right effect; equality never lets the coordinates of an identity operand influence the verdict (Projective) and has the right truth table (Affine). Not decided: curve membership as a statement about values, scalar recoding.',
    note='coordinate ring of G2 is Fq2, whose operations are decided under C04')
CLAIMS['C11'].update(
    technique='static analysis: abstract interpretation of every path segment of the key-derivation routines in the discrete-log domain (formal linear combinations of base symbols with polynomial coefficients mod r, bilinear expansion of pairings) compared with effect tables written from the scheme definition; cursor-discipline path rules',
    text='Decided for every number of slots and every attribute list (initialisation + per-iteration effect by category + exit condition + finalisation): setup, keygen, qualifykey, the non-delegable variants, resamplekey produce exactly the components the construction prescribes (which generator, which exponent, which randomness, every component re-randomised) and decrypt / decrypt_master compute the prescribed pairing product; cursors advance correctly. Not decided: the distribution of keys, the pairing itself (C01).',
    note='assumes sorted attribute / free-slot lists; the effect tables are the oracle (written from the construction, cross-checked symbolically)')
CLAIMS['C12'].update(
    technique='static analysis: discrete-log-domain effect tables per path segment (hidden-slot categories), hidden-path rule, totality rule on precompute',
    text='Decided: on every path a hidden slot contributes neither to a0 nor a delegation component and a parent component for it is consumed; visible attributes enter with the right generator and identity; precompute binds every listed attribute with h[idx]^id; the ciphertext binds the product with the encryption randomness. Non-decryptability is a cryptographic statement and is NOT decided.',
    note='necessary conditions of the security statement; sufficient for the functional clauses')
CLAIMS['C13'].update(
    technique='static analysis: discrete-log-domain effect tables for sign_precomputed / verify_precomputed (value of both sides of the verification equation), signer fill-loop paths, delegation shape',
    text='Decided: the signature components are exactly key * (hsig^m * prodexp)^s re-randomised, free slots are filled exactly on index matches, and verification compares e(a0,g)/e(hsig^m*prodexp,a1) with the public pairing value. That this accepts exactly the signed message/list is then the algebra of the scheme (bilinearity assumed). Unforgeability is NOT decided.',
    note='no claim about soundness')
CLAIMS['C14'].update(
    technique='static analysis: discrete-log-domain effect tables for precompute / adjust_precomputed / adjust_nondelegable / resamplekey per path segment; forwarding-shape rule; merge progress; borrow-repair rule for subtraction modulo r',
    text='Decided for all list shapes: the two-cursor merge adds (to.id - from.id) h[idx], removes from-only and adds to-only attributes, drains both lists; adjust_nondelegable adjusts a0 by the same differences of the parent components and hands on exactly the slots `to` does not bind; direct forms are precompute + precomputed forms. Not decided: the skip loops of adjust_nondelegable in the presence of hidden entries (semantics not derivable).',
    note='assumes sorted lists')
CLAIMS['C16'].update(
    technique='static analysis: discrete-log-domain effect tables for LQ-IBE setup/keygen/encrypt/decrypt (both pairing arguments, hash-input members, callback arguments); writer/reader agreement and padding-freeness of the hash-input struct; who-may-call for cofactor clearing',
    text='Decided: sk = s*Q_id, ciphertext = r*P, encryption hashes (enc Q_id, enc rP, e(Q_id, r*sP)) and decryption hashes (enc Q_id, enc rP, e(s*Q_id, rP)) through the same callback arguments; the struct has no padding in any configuration. Equality of the two pairing values is bilinearity (C01).',
    note='structural + value-domain agreement')
CLAIMS['C08'].update(
    note='the traces depend only on bls_x and literals; a data-dependent condition other than the identity tests makes pairs non-uniform and is reported as a violation')

# ---- session 3, second half
CLAIMS['C02'].update(
    technique='static analysis: word-level algebraic value numbering of the portable C++ multi-precision layer (resolved AST, all five configurations: 64- and 32-bit words) and of the x86-64 / AArch64 assembly (integer-polynomial normal forms with carry identities, interval arguments for dropped carries, decided carry idioms, path facts for the correction tails); byte-lane analysis of byte I/O; constant relations; who-may-write rule for representations',
    text='Decided for all operands: every portable C++ BigInt add / subtract / double / multiply / square / compare and FpBase add / subtract / multiply2 / reduce / montgomery_reduce instantiation (128..768 bits, 64- and 32-bit words) and every assembly routine computes its specification polynomial on every path, with the modulus correction applied exactly when the value reaches the modulus and a canonical result; byte I/O reverses bytes exactly; all constants; zero special cases; only the 12 decided primitives write a representation. Not decided: inversion / exponentiation / square-root / Legendre as values (they compose the decided primitives), ARMv6-M assembly.',
    note='preconditions of the specifications (operands canonical, inv*p[0] = -1 mod 2^w, T < p*2^bits) are stated, not derived; assembly routines called from C++ are summarised by the specification proven for them')
CLAIMS['C03'].update(
    technique='static analysis: one specification polynomial per operation, proven by word-level algebraic value numbering for the portable C++ routines in every configuration (64-bit and 32-bit words) and for every x86-64 (baseline, BMI2/ADX) and AArch64 assembly routine; sibling cross-check of specialisation signatures and forwarding; dispatch pairing',
    text='Decided: x86-64 baseline asm, x86-64 BMI2/ADX asm, AArch64 asm, portable C++ with 64-bit words and portable C++ with 32-bit words all compute the same specification (exact add/sub/double with returned carry, full product/square, modular add/sub/double, Montgomery reduction with canonical result) for all operands, hence agree bit for bit. Not decided: ARMv6-M assembly bodies (not assemblable in this image; their C++ side is checked). D10 found and fixed.',
    note='trusted base: clang front end / integrated assembler + llvm-objdump, the instruction and C++ expression semantics in jpv/asmsem.py and jpv/cppword.py')
CLAIMS['C06'].update(
    technique='static analysis: call-graph reachability (who-may-call), carry dataflow of the recoding, edge-dominance of digit reads, extents, constant relations; concrete-control / symbolic-value execution of the set-up code of the interleaved multiplications in the discrete-log domain (table bases, recoded scalars, table contents)',
    text='Decided: order-r-only multiplications are unreachable from code handling points outside the subgroup; recoding overflow repaired; digit reads guarded; extents; GLV / Frobenius constants; in G2::multiply_frobenius digit stream j is recoded from c[j] and table j holds odd multiples of [|x|^j]a on every set-up path, in G1::multiply_endomorphism both streams and the table are bound to (c0, c1, a), fill_table gives (2k+1)*base. Not decided: the recoding as a value (sum of digits = scalar), the digit loop, the GLV decomposition arithmetic.',
    note='psi(P) = [x]P on G2 and the endomorphism eigenvalue are the assumed facts')
CLAIMS['C09'].update(
    technique='static path analysis of the decoders (must-pass obligations), sibling agreement of the sign predicate between encoder and decoder, byte-lane analysis of coordinate byte I/O, flag-constant relations',
    text='Decided: every validating accepting path passes form, identity-padding, canonicality, curve and subgroup tests; the non-validating path performs the same state changes; the compressed encoder sets the sign flag by the same predicate (resolved comparison, operand roles, constant) the decoder uses to select the root; write/read_big_endian reverse bytes exactly; flag constants disjoint. Value round-trip as a whole is NOT decided (square root / curve arithmetic).')
CLAIMS['C15'].update(
    technique='static analysis: affine footprint analysis of marshal/unmarshal vs the length formulas, writer/reader field pairing, byte-lane analysis of the free-slot index encoding, finite-domain evaluation of first-byte predicates, edge-dominance rules for length guards, must-check rule for decode verdicts',
    text='For all 22 marshal/unmarshal pairs: bytes touched tile exactly [0, marshalledLength); writer and reader agree field by field and codec by codec; the 4 index bytes carry exactly the 4 bytes of idx, big-endian, and are read back to the same lanes (for all 2^32 values); length discovery agrees with what unmarshal consumes and is guarded; every decode verdict propagates. Equality of group elements after a round trip is C09 + the point codec.')

# ---- session 4: decompositions, Miller schedule, cursor-bounded reads, ARMv6-M assembly, tower predicates / square root
CLAIMS['C01'].update(
    technique=CLAIMS['C01']['technique'] + '; concrete evaluation of the constant-controlled loops of miller_loop (any loop form) giving the per-pair event trace, compared with the Miller schedule derived from the bits of |x|',
    text=CLAIMS['C01']['text'].replace('Not decided:', 'The sequence of accumulator updates per pair (squarings, tangent/chord steps, line evaluations, nothing else) IS the Miller schedule of |x|: one squaring between consecutive bit positions, none after the last, chord steps exactly at the set bits. Not decided:'))
CLAIMS['C02'].update(
    technique=CLAIMS['C02']['technique'].replace('x86-64 / AArch64 assembly', 'x86-64 / AArch64 / ARMv6-M assembly'),
    text=CLAIMS['C02']['text'].replace(', ARMv6-M assembly.', '. The ARMv6-M routines are decided on the disassembly of the sources after a mechanical divided-to-unified Thumb syntax rewrite (32-bit words, 16x16 partial products); the fused multiply/square/reduce routines up to their call of the C++ reduce trampoline, whose callee is decided by the C++ rule.'),
    note=CLAIMS['C02']['note'] + '; jpv/thumbconv.py (syntax rewrite) is trusted')
CLAIMS['C03'].update(
    technique=CLAIMS['C03']['technique'].replace('and AArch64 assembly routine', ', AArch64 and ARMv6-M assembly routine'),
    text=CLAIMS['C03']['text'].replace('Not decided: ARMv6-M assembly bodies (not assemblable in this image; their C++ side is checked).', 'The ARMv6-M assembly (32-bit words) computes the same specifications, decided on the disassembly after the divided-to-unified syntax rewrite; its footprint (bytes written / read, returned flag, callee-saved registers, stack) is decided too.'),
    note=CLAIMS['C03']['note'] + '; jpv/thumbconv.py and the Thumb instruction semantics in jpv/thumbsem.py')
CLAIMS['C04'].update(
    technique=CLAIMS['C04']['technique'] + '; monomial-shape rule for the Fq2 square root; truth tables of the tower predicates',
    text=CLAIMS['C04']['text'].replace('Not decided: Fq2 square root / Legendre, byte I/O.', 'The Fq2 square root follows the exponent schedule of its algorithm with the exceptional branch taken exactly on alpha == -1, and is_zero / is_one / equal of Fq2, Fq6, Fq12 are the conjunctions over all coordinates. Not decided: Legendre symbol as a value, byte I/O.'))
CLAIMS['C05'].update(
    technique=CLAIMS['C05']['technique'] + '; truth tables of the coordinate predicates the guards rely on',
    text=CLAIMS['C05']['text'])
CLAIMS['C06'].update(
    technique=CLAIMS['C06']['technique'] + '; per-path effect of the digit loops; word-level algebraic value numbering of decompose_lambda and PowersOfX::decompose (division by a constant modelled by a == d*q + rem, ordered subtraction by the compare fact)',
    text='Decided: order-r-only multiplications are unreachable from code handling points outside the subgroup; recoding overflow repaired; digit reads guarded; extents; GLV / Frobenius constants; tables, streams and the per-digit accumulator updates of the interleaved loops (signs included); decompose_lambda returns (c0, c1, signs) with (+-c0) + lambda(+-c1) == k (mod r) identically in k on every path (all five configurations); PowersOfX::decompose returns digits with sum c_i |x|^i == y (mod r) identically in y on every path (all five configurations; where no 128-bit type exists the 64-step restoring division is decided as an inductive step per bit position and summarised). Not decided: the w-NAF recoding as a value (digits sum to the scalar).')
CLAIMS['C07'].update(
    technique='static analysis: exponent-domain value numbering of the simultaneous and generic exponentiation routines (digit bits as symbols, Frobenius images as powers of x modulo r); span check of the cyclotomic squaring; word-level algebraic value numbering of PowersOfX::decompose; rejection-loop rule for the random exponent; constant relations; interval rule on the bit-scan loop',
    text='Decided for all inputs: exponentiate_gt returns a^(sum of bit_i(c_j) 2^i |x|^j) with every one of the 256 digit bits used (distinct and aliased result), the generic routines weight bit i by 2^i, the fast squaring is a*a on the cyclotomic subgroup; PowersOfX::decompose recombines to the exponent modulo r on every path (y < r, y == r, y > r; all five configurations, the restoring division of the 32-bit-word ones decided as an inductive step), the discarded upper quotient words being zero by range; the random exponent is rejection-sampled below |x| per digit and below r overall and recombined with |x|^k. Not decided: uniformity as a distribution.',
    note='tower operations are the field operations (C04); q = x and q^6 = -1 modulo r on the order-r subgroup are the facts used')
for _p in ('C11', 'C12', 'C13', 'C14'):
    CLAIMS[_p].update(
        technique=CLAIMS[_p]['technique'] + '; must-dataflow on the CFG for cursor-selected reads of the input lists (R-INBOUNDS)',
        text=CLAIMS[_p]['text'] + ' Independently of the loop structure: every element of an input list (attrs.attrs, sk.b, params.h) selected by a cursor is touched only where every path has tested that cursor against the list\'s count since it last moved.',
        note=CLAIMS[_p]['note'] + '; the segment tables of R-SCHEME are tied to the loop structure of each routine: on a restructured routine that rule reports no verdict (exit 2) rather than an alarm')
CLAIMS['C17'].update(
    note=CLAIMS['C17']['note'].replace('ARMv6-M assembly bodies and Go callers not analysed', 'ARMv6-M assembly footprints decided on the disassembly after the syntax rewrite (jpv/thumbconv.py, trusted); Go callers not analysed'))
CLAIMS['C18'].update(
    note=CLAIMS['C18']['note'].replace('assembly leaves are assumed alias-safe until R-ASM summaries exist', 'assembly leaves (x86-64, AArch64, ARMv6-M) are summarised by their store-before-load facts'))
CLAIMS['C19'].update(
    technique=CLAIMS['C19']['technique'] + '; file-local helpers of the marshalling wrappers are seen through (parameter binding)')

# ---- session 4, second half
CLAIMS['C02'].update(
    text=CLAIMS['C02']['text'].replace('Not decided: inversion / exponentiation / square-root / Legendre as values (they compose the decided primitives)', 'Inversion (binary extended Euclid in Montgomery form) is decided as partial correctness: with K = R^2/a the invariant b == K u, c == K v (mod p), b, c < p, u, v <= p holds initially and is preserved by each halving step and by the subtraction step executed from an arbitrary state, and the result is b when u == 1 and c otherwise (termination not decided). Not decided: exponentiation / square-root / Legendre as values (they compose the decided primitives)'))
CLAIMS['C06'].update(
    text=CLAIMS['C06']['text'].replace('Not decided: the w-NAF recoding as a value (digits sum to the scalar),', 'The w-NAF recoding is decided as an inductive step: one iteration of from_bigint from an arbitrary state gives c_old == u + 2 c_new exactly (lost top bit of the add-back re-inserted), |u| <= 2^w - 1, digit stored at wnaf[i], i advanced; with c == scalar before the loop and c == 0 at the exit the digits recombine to the scalar. Not decided:'))
CLAIMS['C11'].update(
    technique=CLAIMS['C11']['technique'] + '; interprocedural must-pass rule for the hidden-attribute flag (R-HIDDEN/flag)')
CLAIMS['C12'].update(
    technique=CLAIMS['C12']['technique'] + '; interprocedural must-pass rule for the hidden-attribute flag (R-HIDDEN/flag)',
    text=CLAIMS['C12']['text'] + ' In the four key-derivation routines and in every scheme routine they hand the attribute list to, the identity of a list element is used only after the omitFromKeys flag of the same element has been tested on every path.')
CLAIMS['C17'].update(
    technique=CLAIMS['C17']['technique'] + '; guard-refined interval analysis (a variable the code compares against a constant ranges over its whole type outside the guard)',
    text=CLAIMS['C17']['text'] + ' A subscript whose index is guarded by a comparison of a variable with a constant must be in range on BOTH arms for every value of that variable\'s type (the comparison states that the other values occur).')
CLAIMS['C18'].update(
    text=CLAIMS['C18']['text'] + ' Reference locals bound through a conditional on pointer equality (`(this == &b) ? b : a`) are resolved under each aliasing pattern; a reference the analysis cannot resolve stops the check (no silent private-object assumption).')

# ---- session 4, round 10 rules
CLAIMS['C05'].update(
    technique=CLAIMS['C05']['technique'] + '; definite-output rule on the CFG of every out-of-place point operation',
    text=CLAIMS['C05']['text'] + ' Every out-of-place operation of the point classes writes its result on every path (or the result is the argument itself).')
CLAIMS['C08'].update(
    text=CLAIMS['C08']['text'] + ' The C entry points (pairing, pairing_sum, prepared_pairing, g2prepared_prepare) hand all their arguments to one call of the C++ routine decided here.')
CLAIMS['C09'].update(
    technique=CLAIMS['C09']['technique'] + '; truth table of the sign predicate by abstract evaluation (three classes per base-field coordinate)',
    text=CLAIMS['C09']['text'].replace('the compressed encoder sets the sign flag by the same predicate (resolved comparison, operand roles, constant) the decoder uses to select the root;', 'the predicate by which the compressed encoder sets the sign flag and the one by which the decoder selects the root are both `y is the larger of (y, -y)` on every class of input (zero / smaller / larger per coordinate; helpers are inlined; a predicate that cannot be evaluated falls back to: both sides written identically);'))
CLAIMS['C10'].update(
    technique=CLAIMS['C10']['technique'] + '; truth table of the root-selection predicate (shared with C09)',
    text=CLAIMS['C10']['text'].replace('Determinism of hash-to-curve', 'get_point_from_x (which hash-to-curve takes its y from) rejects non-residues on checked paths and selects the root by `y is the larger of (y, -y)` on every class of input. Determinism of hash-to-curve'))
for _p in ('C11', 'C12'):
    CLAIMS[_p].update(
        text=CLAIMS[_p]['text'] + ' A delegation component of a derived key is written only after omitAllFromKeysUnlessPresent was tested on every path (R-HIDDEN/all).')
CLAIMS['C20'].update(
    technique=CLAIMS['C20']['technique'] + '; const-input rule (no mutable data member, no const-removing cast that is written through)',
    text=CLAIMS['C20']['text'] + ' No library record has a mutable data member and no cast removes const from a pointee except to read through it: an object received as a const input cannot carry state.')

# ---- session 4, benign-refactor rounds and round 11
CLAIMS['C09'].update(
    technique=CLAIMS['C09']['technique'] + '; word-level symbolic execution of the identity branch of decode (path facts must force every padding byte and the stray flag bits to zero)',
    text=CLAIMS['C09']['text'] + ' For the identity: on every accepting validating path with the infinity flag set, the path facts force data[i] == 0 for every i >= 1 and (data[0] & 0x3f) == 0, whatever loop form, helper or local the test is written with.')
CLAIMS['C13'].update(
    text=CLAIMS['C13']['text'] + ' The signer\'s fill loop is left only when every free slot of the key was visited or no attribute is left (exit condition of the per-segment argument).')
CLAIMS['C03'].update(
    text=CLAIMS['C03']['text'] + ' The portable Montgomery reduction is decided per path when it branches on data: the quotient words of the path, a round with u == 0 contributing its untouched low word, must satisfy 2^n V + Z == T + U p.')
CLAIMS['C10'].update(
    text=CLAIMS['C10']['text'] + ' The top-byte masks of the samplers and hash reductions equal 2^(bitlen mod 8) - 1 (value below 2p before the single conditional subtraction).')
CLAIMS['C02'].update(
    technique=CLAIMS['C02']['technique'] + '; alias dataflow over the field layer; flag discipline of the assembly carry chains',
    text=CLAIMS['C02']['text'] + ' Every field-layer operation gives the same result with its output aliasing an input (its interface allows it). Every add-with-carry of the assembly routines consumes a cleared flag or the carry of an addition chain.')
CLAIMS['C03'].update(
    text=CLAIMS['C03']['text'] + ' Every add-with-carry of the assembly routines consumes a cleared flag or the carry of an addition chain (a stale flag is reported).')
CLAIMS['C09'].update(
    text=CLAIMS['C09']['text'] + ' A canonicality helper that compares raw coordinates with q must read every 48-byte coordinate slot of the instantiation.')
CLAIMS['C02'].update(
    text=CLAIMS['C02']['text'] + ' BigInt::is_zero returns true only if every bit of the value is zero (per-bit coverage of the tests and or-accumulations through any view of the storage union).')
CLAIMS['C06'].update(
    technique=CLAIMS['C06']['technique'] + '; exponent-domain interpretation of the plain double-and-add (R-POLY/doubleadd)',
    text=CLAIMS['C06']['text'] + ' Projective::multiply_doubleadd_restrict (every instantiation) computes sum_i 2^i bit_i(k) base over exactly the bits 0..highest_bit, identically in the scalar bits (group element as leaf: copy(zero) -> 0, multiply2 -> *2, add -> +; word-at-a-time reads of the scalar are symbolic words and both outcomes of every zero-word test are run).')
for _p in CLAIMS:
    CLAIMS[_p]['note'] = (CLAIMS[_p].get('note') or '') + ' Functions and local names that the tree the rule tables were written for does not have (jpv/baseline_functions.txt, baseline_locals.txt), closures, pointer walks, infinite-loop / continue / leading-break forms and predicate helpers are rewritten exactly into the forms the tables know before the rules run (jpv/normalise.py, jpv/cfg.py); a routine restructured beyond that is declined (exit 2), not reported.'

NA = {
}

def main():
    checks = []
    for p in props:
        pid = p['id']
        if pid in CLAIMS:
            c = CLAIMS[pid]
            checks.append(dict(property_id=pid, quick_cmd='./check %s --tier quick' % pid,
                               thorough_cmd='./check %s --tier thorough' % pid,
                               evidence_file='/verif/evidence/%s.json' % pid,
                               replay_cmd_template='./check %s --replay {path}' % pid,
                               engine='jpv', level_claimed=dict(category=c['category'], text=c['text'], design_ref=c['design_ref']),
                               level_note=c['note'], technique=c['technique']))
    na = []
    for p in props:
        pid = p['id']
        if pid not in CLAIMS:
            na.append(dict(property_id=pid, reason=NA.get(pid, 'check not built/validated yet (DESIGN.md section 8 build order); not claimed until it is')))
    m = dict(version=1, setup_cmd='./setup.sh',
             hooks=dict(guard='JEDI_PAIRING_VERIF', enable='none needed: the analyses read /repo sources directly (no hook code exists in /repo)',
                        baseline_off_cmd='make -C /repo/tests clean && make -C /repo/tests -j16 test && cd /repo/tests && ./test',
                        source_commits=[], add_only=True),
             engines=[dict(name='jpv', path='/verif/check', serves_properties=sorted(CLAIMS),
                           kind_free_text='custom static analyser: jpfacts (clang-14 libTooling serializer of the type-checked, instantiated program per configuration) + Python rule engines (layout, wrapper dataflow, alias dataflow, CFG path rules, constant relations, LLVM-IR effect rules, assembly dataflow)')],
             checks=checks, notes='Static analysis only; see DESIGN.md. Exit 2 = ANALYSIS-BROKEN (anchor vanished / floor not met), never a pass.',
             not_applicable=na)
    json.dump(m, open(os.path.join(V, 'MANIFEST.json'), 'w'), indent=1)
    print('claimed:', sorted(CLAIMS), 'n/a:', len(na))

if __name__ == '__main__':
    main()
