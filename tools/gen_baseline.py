#!/usr/bin/env python3
"""Writes jpv/baseline_functions.txt: the qualified names (template arguments stripped) of every function with a body under src/ and
include/ of the tree the rule tables were written for (all configurations).  A function that is NOT in this list is new to the rules:
jpv/normalise.py substitutes it into its callers.  Regenerate only when the rule tables are revised for a new upstream tree."""
import sys, os
sys.path.insert(0, os.path.dirname(os.path.dirname(os.path.abspath(__file__))))
from jpv.report import Ctx
from jpv.facts import strip_tmpl
ctx = Ctx('C20', 'quick')
names = set()
for cfg, prog in ctx.programs().items():
    for f in prog.functions.values():
        if 'body' in f and str((f.get('l') or ('',))[0]).startswith(('src/', 'include/')):
            names.add(strip_tmpl(f['qn']))
from jpv.facts import walk
locs = set()
for cfg, prog in ctx.programs().items():
    for f in prog.functions.values():
        if 'body' in f and str((f.get('l') or ('',))[0]).startswith(('src/', 'include/')):
            for x in walk(f['body']):
                if isinstance(x, dict) and x.get('k') == 'decl':
                    for v in x.get('vars', []):
                        if v.get('name'):
                            locs.add('%s\t%s' % (strip_tmpl(f['qn']), v['name']))
lout = os.path.join(os.path.dirname(os.path.dirname(os.path.abspath(__file__))), 'jpv', 'baseline_locals.txt')
open(lout, 'w').write('\n'.join(sorted(locs)) + '\n')
print(len(locs), 'locals ->', lout)
out = os.path.join(os.path.dirname(os.path.dirname(os.path.abspath(__file__))), 'jpv', 'baseline_functions.txt')
open(out, 'w').write('\n'.join(sorted(names)) + '\n')
print(len(names), 'functions ->', out)
