/* freestanding stub: pairing.cpp includes <stdio.h> but uses nothing from it */
#ifndef JPV_STUB_STDIO_H
#define JPV_STUB_STDIO_H
#include <stddef.h>
#ifdef __cplusplus
extern "C" {
#endif
int printf(const char* fmt, ...);
#ifdef __cplusplus
}
#endif
#endif
