/* freestanding stub for cross-target parsing: the library needs only these prototypes */
#ifndef JPV_STUB_STRING_H
#define JPV_STUB_STRING_H
#include <stddef.h>
#ifdef __cplusplus
extern "C" {
#endif
void* memset(void* s, int c, size_t n);
void* memcpy(void* __restrict dst, const void* __restrict src, size_t n);
void* memmove(void* dst, const void* src, size_t n);
int memcmp(const void* a, const void* b, size_t n);
int strcmp(const char* a, const char* b);
size_t strlen(const char* s);
#ifdef __cplusplus
}
#endif
#endif
